"""C14 — RTCM framer dispatches exactly the CRC-valid RTCM 3 frames."""
import json, os, sys
import vf
from translators import gen_c14
sys.path.insert(0, os.path.join(vf.VERIF, 'harness', 'py'))
import c14_common as cm

LEVEL = 'proof'
PID = 'C14'
SRC = [os.path.join(vf.REPO, 'src/point_one/rtcm/rtcm_framer.cc'),
       os.path.join(vf.REPO, 'src/point_one/fusion_engine/common/logging.cc')]
HARNESS = os.path.join(vf.VERIF, 'harness/cpp/c14_framer_h.cc')
ASAN_ENV = dict(os.environ, ASAN_OPTIONS='halt_on_error=0:suppress_equal_pcs=0:detect_leaks=0:allocator_may_return_null=1',
                UBSAN_OPTIONS='print_stacktrace=0')
MIN_CAP = 6


# ---- token generator ---------------------------------------------------------------------------------
def gen_token(r, kinds=None):
    k = r.choice(kinds or ['valid', 'valid', 'valid', 'valid-small', 'valid-empty', 'valid-max', 'corrupt-payload', 'corrupt-crc',
                           'truncated', 'stray-d3', 'd3-run', 'd3-as-length', 'nested', 'd3-payload', 'reserved-bits', 'fe-message',
                           'junk', 'false-sync-short', 'false-sync-long', 'zeros', 'swallow-many', 'junk-then-d3'])
    if k == 'valid':
        n = r.choice([r.randint(0, 40), r.randint(0, 300), r.randint(0, 1023)])
        return k, cm.rtcm_frame(cm.rtcm_payload(r, n, r.choice([1005, 1074, 1077, 1230, 4095, 0, r.randrange(4096)])))
    if k == 'valid-small':
        return k, cm.rtcm_frame(cm.rtcm_payload(r, r.randint(0, 6), r.randrange(4096)))
    if k == 'valid-empty':
        return k, cm.rtcm_frame(b'')
    if k == 'valid-max':
        return k, cm.rtcm_frame(cm.rtcm_payload(r, r.choice([1023, 1022, 1021]), 1077))
    if k in ('corrupt-payload', 'corrupt-crc'):
        f = bytearray(cm.rtcm_frame(cm.rtcm_payload(r, r.randint(1, 60), 1005)))
        i = r.randrange(3, len(f) - 3) if k == 'corrupt-payload' else r.randrange(len(f) - 3, len(f))
        f[i] ^= 1 << r.randrange(8)
        return k, bytes(f)
    if k == 'truncated':
        f = cm.rtcm_frame(cm.rtcm_payload(r, r.randint(0, 60), 1005))
        return k, f[:r.randrange(1, len(f))]
    if k == 'stray-d3':
        return k, b'\xd3'
    if k == 'd3-run':
        return k, b'\xd3' * r.randint(2, 9)
    if k == 'd3-as-length':
        return k, b'\xd3' + bytes([r.choice([0xD3, 0x00, 0x03]), 0xD3]) + bytes(r.getrandbits(8) for _ in range(r.randint(0, 12)))
    if k == 'nested':
        inner = cm.rtcm_frame(cm.rtcm_payload(r, r.randint(0, 20), 1074))
        pad = bytes(r.getrandbits(8) for _ in range(r.randint(0, 5)))
        outer = cm.rtcm_frame(pad + inner + pad)
        if r.random() < 0.5:   # corrupt the outer CRC so that the inner frame becomes the one a scan finds
            o = bytearray(outer); o[-1] ^= 0x55; outer = bytes(o)
        return k, outer
    if k == 'd3-payload':
        p = bytearray(cm.rtcm_payload(r, r.randint(2, 40), 1077))
        for _ in range(r.randint(1, 4)):
            p[r.randrange(len(p))] = 0xD3
        f = cm.rtcm_frame(bytes(p))
        if r.random() < 0.4:
            o = bytearray(f); o[-2] ^= 0x10; f = bytes(o)
        return k, f
    if k == 'reserved-bits':
        return k, cm.rtcm_frame(cm.rtcm_payload(r, r.randint(0, 30), 1005), reserved=r.randrange(1, 64))
    if k == 'fe-message':
        return k, cm.fe_message(bytes(r.getrandbits(8) for _ in range(r.randint(0, 40))), mtype=r.choice([10000, 10001, 12000]), seq=r.randrange(1 << 32))
    if k == 'junk':
        return k, bytes(r.getrandbits(8) for _ in range(r.randint(1, 30)))
    if k == 'swallow-many':   # a 0xD3 whose bogus length spans several complete frames: all recovered by one Resync()
        inner = b''.join(cm.rtcm_frame(cm.rtcm_payload(r, r.choice([0, 0, 2, 7, 19]), 1000 + j)) for j in range(r.randint(3, 6)))
        n = len(inner) + r.randint(0, 6)
        return k, bytes([0xD3, (n >> 8) & 3, n & 0xFF]) + inner + bytes(r.getrandbits(8) for _ in range(n - len(inner) + 3))
    if k == 'junk-then-d3':    # >= 24 bytes without a preamble, then a stray 0xD3 (meant to end a chunk)
        j = bytes(b for b in (r.getrandbits(8) for _ in range(40)) if b != 0xD3)[:r.randint(24, 36)]
        return k, j + r.choice([b'\xd3', b'\xd3\x00', b'\xd3\xd3', b'\xd3\x03'])
    if k == 'false-sync-short':
        return k, b'\xd3' + bytes([r.randrange(4) & 0, r.randint(0, 20)]) + bytes(r.getrandbits(8) for _ in range(r.randint(0, 30)))
    if k == 'false-sync-long':
        return k, b'\xd3' + bytes([r.choice([0xFF, 0x03, 0x02]), 0xFF]) + bytes(r.getrandbits(8) for _ in range(r.randint(0, 30)))
    return k, bytes(r.randint(1, 8))


def gen_case(r, thorough):
    nt = r.choice([1, 2, 3, 4, 6, 8]) if r.random() < 0.85 else r.randint(8, 25 if thorough else 14)
    toks = [gen_token(r) for _ in range(nt)]
    kinds = [k for k, _ in toks]
    tokens = [t for _, t in toks]
    s = b''.join(tokens)
    sizes = [len(t) for t in tokens]
    big = max(sizes)
    capc = r.choice(['tiny', 'exact', 'exact', 'small', 'mid', 'max', 'huge'])
    cap = {'tiny': r.choice([0, 3, 5, 6, 7, 8, 9]), 'exact': max(0, r.choice(sizes) + r.choice([-1, 0, 0, 1, 2, 3])), 'small': r.randint(6, 40),
           'mid': r.randint(40, 400), 'max': r.choice([1029, 1028, 1030, 1032, 2048]), 'huge': len(s) + r.randint(1, 64)}[capc]
    mode = r.choice(['U', 'U', 'M'])
    align = r.randrange(4) if mode == 'U' else 0
    ch = r.choice(['single', 'bytewise', 'split', 'random', 'random', 'token-ends'])
    if ch == 'single':
        cuts = []
    elif ch == 'bytewise':
        cuts = list(range(1, len(s)))
    elif ch == 'split':
        cuts = [r.randrange(0, len(s) + 1)]
    elif ch == 'token-ends':
        cuts = cm.token_cuts(tokens, r)
    else:
        cuts = cm.cuts_of(cm.chunk_random(s, r))
    nchunks = len(cuts) + 1
    resets = [r.randrange(nchunks) for _ in range(r.choice([0, 0, 0, 1, 2]))]
    setbufs = cm.gen_setbufs(r, nchunks, mode, cap, align, [6, 7, 9, 12, 64, 300, 1029, 1100, max(sizes), max(sizes) + 3], MIN_CAP) if r.random() < 0.25 else []
    opts = r.choice([0, 1]) | (4 if r.random() < 0.03 else 0)
    regs = []
    if r.random() < 0.3:      # which callbacks are registered: none / callback A / callback B, changed between chunks
        regs = [(0, r.choice([0, 1, 2, 2]))] + [(r.randrange(nchunks), r.randrange(3)) for _ in range(r.choice([0, 1, 2]))]
        regs = list(dict(regs).items())
    return {'mode': mode, 'cap': cap, 'align': align, 'tokens': tokens, 'kinds': kinds, 'cuts': cuts, 'resets': resets,
            'setbufs': setbufs, 'chunking': ch, 'capclass': capc, 'opts': opts, 'regs': regs}


def systematic_cases(r, thorough):
    """small-scope part: every payload length (thorough: all 0..1023; quick: a grid) alone and after a stray 0xD3,
    at capacity = size-1, size, size+1 and all alignments; all single splits of a short two-frame stream."""
    out = []
    lens = range(0, 1024) if thorough else list(range(0, 20)) + [63, 64, 255, 256, 257, 511, 512, 1000, 1021, 1022, 1023]
    for n in lens:
        f = cm.rtcm_frame(cm.rtcm_payload(r, n, r.randrange(4096)))
        for dc in (-1, 0, 1):
            al = r.randrange(4)
            shift = (4 - al) % 4
            out.append({'mode': 'U', 'cap': len(f) + dc + shift, 'align': al, 'tokens': [b'\xd3', f, f[:5]], 'kinds': ['stray-d3', 'valid', 'truncated'],
                        'cuts': [], 'resets': [], 'setbufs': [], 'chunking': 'single', 'capclass': 'exact'})
    a = cm.rtcm_frame(cm.rtcm_payload(r, 3, 1005)); b = cm.rtcm_frame(b'\xd3\x00\x00' + cm.rtcm_payload(r, 2, 1077))
    bad = bytearray(b); bad[-1] ^= 1
    s = [b'\xd3\xd3', a, bytes(bad), a]
    tot = sum(len(x) for x in s)
    for k in range(tot + 1):
        for cap in (16, 1029):
            out.append({'mode': 'U', 'cap': cap, 'align': k % 4, 'tokens': s, 'kinds': ['d3-run', 'valid', 'nested', 'valid'], 'cuts': [k],
                        'resets': [], 'setbufs': [], 'chunking': 'split', 'capclass': 'small'})
    def mk(mode, cap, align, tokens, kinds, cuts=(), capclass='exact', **kw):
        d = {'mode': mode, 'cap': cap, 'align': align, 'tokens': list(tokens), 'kinds': list(kinds), 'cuts': list(cuts), 'resets': [], 'setbufs': [],
             'chunking': 'single' if not cuts else 'split', 'capclass': capclass}
        d.update(kw)
        return d
    # a frame LARGER than / exactly as large as the usable capacity, whole and split at every offset, followed by one that fits
    big = cm.rtcm_frame(cm.rtcm_payload(r, 14, 1077)); small = cm.rtcm_frame(b'\x3e\xd0')
    for al in (0, 1, 3):
        for dc in (-1, 0):
            cap = len(big) + dc + (4 - al) % 4
            for k in range(0, len(big) + len(small) + 1):
                out.append(mk('U', cap, al, [big, small], ['valid', 'valid-small'], cuts=[k] if k else []))
    # the empty frame as the last bytes of a call and of the stream, every split
    e = cm.rtcm_frame(b'')
    for pre in (b'', small, b'\x01\x02\xd3'):
        st = [pre, e] if pre else [e]
        n = sum(len(x) for x in st)
        for k in range(0, n + 1):
            out.append(mk('M', 6, 0, st, ['junk', 'valid-empty'], cuts=[k] if 0 < k < n else [], capclass='tiny'))
            out.append(mk('U', 16, k % 4, st + [e], ['junk', 'valid-empty', 'valid-empty'], cuts=[k, n], capclass='small'))
    # >= 24 junk bytes, then a stray 0xD3 as the last / second-to-last byte of a call, then a real frame
    junk = bytes(x for x in (r.getrandbits(8) for _ in range(60)) if x != 0xD3)[:26]
    for stray in (b'\xd3', b'\xd3\x00', b'\xd3\xd3', b'\xd3\x03'):
        st = [junk, stray, a]
        n0 = len(junk) + len(stray)
        for k in (n0 - 2, n0 - 1, n0, n0 + 1):
            for capx in (1029, 12, 700):
                out.append(mk('U', capx, 0, st, ['junk', 'stray-d3', 'valid'], cuts=[k], capclass='small'))
    # one 0xD3 whose bogus length swallows 4 complete frames: all must come out of ONE Resync pass, any split
    four = b''.join(cm.rtcm_frame(cm.rtcm_payload(r, j, 1000 + j)) for j in (0, 3, 0, 9))
    sw = bytes([0xD3, 0, len(four) + 2]) + four + b'\x00' * 5
    for k in (range(0, len(sw) + 2) if thorough else range(0, len(sw) + 2, 3)):
        out.append(mk('U', 256, 2, [sw, small], ['swallow-many', 'valid-small'], cuts=[k] if k else [], capclass='mid'))
    # each reserved bit of the length bytes set on its own
    for bit in range(6):
        f = cm.rtcm_frame(cm.rtcm_payload(r, 5, 1005), reserved=1 << bit)
        out.append(mk('U', 1029, bit % 4, [b'\xd3', f, f], ['stray-d3', 'reserved-bits', 'reserved-bits'], cuts=[4]))
    # large capacities with maximum-size frames back to back
    mx = cm.rtcm_frame(cm.rtcm_payload(r, 1023, 1077))
    for capx in (70000, 65536, 1029, 1028):
        out.append(mk('U', capx, 1, [mx, b'\xd3', mx, small], ['valid-max', 'stray-d3', 'valid-max', 'valid-small'], cuts=[500, 1029, 1031], capclass='max'))
    # which callback is registered: none / A / B, fixed and changed mid-stream, three chunkings
    for reg in range(3):
        for cuts in ([], [10, 11, 40], list(range(1, len(sw) + len(small)))):
            out.append(mk('U', 256, reg, [sw, small], ['swallow-many', 'valid-small'], cuts=cuts, capclass='mid', regs=[(0, reg)]))
        out.append(mk('M', 200, 0, [small, sw, small], ['valid-small', 'swallow-many', 'valid-small'], cuts=[5, 20, 50], capclass='mid', regs=[(0, reg), (1, (reg + 1) % 3), (3, reg)]))
    # clamp test: the framer is told 2^31 + 5 / 2^33 bytes, the block is only as large as needed
    for claimed in (2 ** 31 + 5, 2 ** 33):
        out.append({'mode': 'U', 'cap': '%d/%d' % (claimed, tot + 8), 'align': 1, 'tokens': s, 'kinds': ['clamp'], 'cuts': [7], 'resets': [],
                    'setbufs': [], 'chunking': 'split', 'capclass': 'clamp', 'no_model': True})
    return out


def lines_of(case):
    """(implementation line, SPEC line); model_line(case) is the implementation line without harness-only options"""
    ops = cm.case_ops(case)
    return cm.make_line(case['mode'], case['cap'], case['align'], ops, opts=case.get('opts', 0)), cm.spec_line(case['mode'], case['cap'], case['align'], ops)


def model_line(case):
    return cm.make_line(case['mode'], case['cap'], case['align'], cm.case_ops(case), for_model=True)


def run_impl(exe, lines):
    """run the sanitizer build; a crash (UBSan abort, segfault) is located by running that shard line by line"""
    try:
        return vf.run_parallel(exe, lines, env=ASAN_ENV)
    except RuntimeError:
        out = []
        for l in lines:
            rc, o, err = vf.run_lines(exe, [l], env=ASAN_ENV)
            out.append(o[0] if rc == 0 and len(o) == 1 else 'CRASH rc=%s %s' % (rc, err[-300:].replace('\n', ' / ')))
        return out


def build(ctx):
    model = vf.build_extracted('c14', 'C14', 'c14_driver.ml')
    impl = vf.build_cpp('c14_asan', [HARNESS] + SRC, extra_flags='-fsanitize-recover=address')
    return model, impl


def evaluate(ctx, cases, model, impl, report=True):
    il, sl = zip(*[lines_of(c) for c in cases]) if cases else ((), ())
    io = run_impl(impl, list(il))
    so = vf.run_parallel(model, list(sl))
    mlines = [model_line(c) for c in cases if not c.get('no_model')]
    mres = iter(vf.run_parallel(model, mlines))
    results = []
    for c, i, s, l in zip(cases, io, so, il):
        m = None if c.get('no_model') else next(mres)
        results.append((c, i, s, m, l))
    return results


def sig_of(case, cls):
    return {'framer': 'rtcm', 'class': cls, 'buffer': case['mode'], 'capclass': case.get('capclass', '?')}


def check_results(ctx, results, model, impl):
    adv_mismatch = 0
    for c, i, s, m, line in results:
        ctx.case((line,), nontrivial=True)
        for k in c.get('kinds', []):
            ctx.count('token:' + k)
        ctx.count('chunking:' + c.get('chunking', '?')); ctx.count('capacity:' + c.get('capclass', '?')); ctx.count('buffer:' + c['mode'])
        if i.startswith('CRASH'):
            ctx.violation(sig_of(c, 'crash'), 'harness process died: ' + i, {'line': line, 'impl': i})
            continue
        isegs, ssegs = cm.parse_out(i), cm.parse_out(s)
        ctx.count('options:%d' % c.get('opts', 0))
        if c.get('opts', 0) & 4:
            # the callback calls Reset() re-entrantly: behaviour is not specified by the property, memory safety is
            bad = [k for k, a in enumerate(isegs) if a.get('flag') in ('ASAN', 'INMOD')]
            if bad:
                ctx.violation(sig_of(c, 'sanitizer-report-with-reentrant-reset'), 'sanitizer report when the callback calls Reset()', {'line': line, 'impl': i})
            continue
        ncb = sum(len(x.get('cbs') or []) for x in ssegs)
        ctx.count('callback-registration-changes', len(c.get('regs', [])))
        ctx.count('frames-dispatched', ncb)
        if ncb == 0:
            ctx.count('case-without-frames')
        d = cm.classify(isegs, ssegs)
        if d is not None:
            def fails(cc):
                a, b = lines_of(cc)
                rc, o, _ = vf.run_lines(impl, [a], env=ASAN_ENV)
                rc2, o2, _ = vf.run_lines(model, [b])
                if rc != 0 or not o:
                    return True
                dd = cm.classify(cm.parse_out(o[0]), cm.parse_out(o2[0]))
                return dd is not None and dd[1] == d[1]
            sc = cm.shrink(c, fails) if len(ctx.violations) < 3 else c
            a, b = lines_of(sc)
            o = vf.run_lines(impl, [a], env=ASAN_ENV)[1]; o2 = vf.run_lines(model, [b])[1]
            om = vf.run_lines(model, [model_line(sc)])[1] if not sc.get('no_model') else ['-']
            ctx.violation(sig_of(c, d[1]), 'RTCM framer vs left-to-right scan: %s at operation %d (capacity %s, %s buffer, alignment %d)' % (d[1], d[0], c['cap'], c['mode'], c['align']),
                          {'line': a, 'spec_line': b, 'stream_hex': b''.join(sc['tokens']).hex(), 'impl': o[0] if o else None, 'spec': o2[0] if o2 else None, 'model': om[0] if om else None})
            continue
        if m is None:
            continue
        msegs = cm.parse_out(m)
        bad = None
        for k, (a, b) in enumerate(zip(isegs, msegs)):
            if a['kind'] == 'D' and (cm.public(a) != cm.public(cm.blind(b, a)) or b.get('flag') != 'ok'):
                bad = k; break
            if a.get('adv') != b.get('adv'):
                fa, fb = a.get('adv', '').split(','), b.get('adv', '').split(',')
                if any(x != y and x != '-1' for x, y in zip(fa, fb)):
                    adv_mismatch += 1
                if '-1' in fa and not getattr(ctx, '_absent_noted', False):
                    ctx._absent_noted = True
                    ctx.notes.append('advisory: some private members (state_/next_byte_index_/current_message_size_/capacity_bytes_/buffer_) no longer exist under these names; their comparison is skipped')
        if bad is not None or len(isegs) != len(msegs):
            ctx.broken_correspondence('RTCM framer model and implementation differ at operation %s' % bad, {'line': line, 'impl': i, 'model': m, 'spec': s})
        if isegs and isegs[-1].get('errors') is not None and msegs[-1].get('errors') is not None and isegs[-1].get('errors') != msegs[-1].get('errors'):
            adv_mismatch += 1
    return adv_mismatch


def translate(ctx, gens):
    """regenerate Generated/*.v by evaluating the working tree; a translator that cannot cope is a failed obligation and the
    run continues on the last generated constants, so that the failing-input search still happens"""
    for name, fn, fallback in gens:
        try:
            consts = fn()
            ctx.notes.append('%s: constants derived from the working tree: %r' % (name, consts))
            ctx.obligation('translator %s derived the constants from the working tree' % name, True, 'translator', repr(consts)[:600])
        except Exception as e:   # noqa
            ctx.obligation('translator %s derived the constants from the working tree' % name, False, 'translator', repr(e)[:600])
            ctx.pending_broken = {'kind': 'translator', 'what': '%s cannot derive the constants from the working tree: %r' % (name, e)}
            if fallback:
                fallback()


def run(ctx):
    translate(ctx, [('gen_c14', gen_c14.generate, gen_c14.ensure_present)])
    if not ctx.coq():
        if not getattr(ctx, 'pending_broken', None):
            ctx.broken_proof()
    elif ctx.thorough and not ctx.coqchk():
        ctx.broken_proof('coqchk rejected the compiled development')
    ctx.log('coq done'); model, impl = build(ctx); ctx.log('runners built')
    r = ctx.rng
    cases = []
    cdir = os.path.join(vf.VERIF, 'corpus', PID)
    if os.path.isdir(cdir):
        for fn in sorted(os.listdir(cdir)):
            c = json.load(open(os.path.join(cdir, fn)))
            c['tokens'] = [bytes.fromhex(t) for t in c['tokens']]
            cases.append(c)
    cases += systematic_cases(r, ctx.thorough)
    n = 150000 if ctx.thorough else 15000
    cases += [gen_case(r, ctx.thorough) for _ in range(n)]
    # CRC agreement: extracted table-driven CRC24Hash model = extracted bit-serial CRC-24Q = Python bit-serial
    crcs = [bytes(r.getrandbits(8) for _ in range(r.randint(0, 64))) for _ in range(300)]
    for d, o in zip(crcs, vf.run_parallel(model, ['CRC ' + (d.hex() or '-') for d in crcs])):
        ctx.case(('crc', d)); ctx.count('crc24q-agreement')
        if o.split() != [str(cm.crc24q(d))] * 2:
            ctx.broken_correspondence('CRC-24Q: model %s vs reference %d on %s' % (o, cm.crc24q(d), d.hex()), {'data': d.hex()})
    ctx.log('%d cases generated' % len(cases)); results = evaluate(ctx, cases, model, impl); ctx.log('runs done')
    adv = check_results(ctx, results, model, impl); ctx.log('compared')
    if adv:
        ctx.notes.append('advisory: private state / error counter differed from the model in %d operations (not an alarm)' % adv)
    for c, i, s, m, line in results[::max(1, len(results) // 5)][:5]:
        ctx.sample({'line': line[:300], 'impl': i[:300]})
    ctx.coverage['rule'] = ('histories = token streams (valid frames payload 0..1023, corrupted, truncated, stray/run 0xD3, 0xD3 as length bytes and inside payloads, '
                            'nested frames, reserved bits, FusionEngine messages, junk, false syncs) x chunkings (single, bytewise, single split, random incl. empty chunks) '
                            'x capacities (0..9, frame size -1/0/+1/+2/+3, 6..40, 40..400, 1028..2048, > stream, told 2^31+5 / 2^33) x user(4 alignments)/managed buffers '
                            'x Reset() and SetBuffer() at random chunk boundaries; systematic part: %s payload lengths x capacity size-1/size/size+1, all single splits of a 4-token stream. '
                            'Added after the seeded-change audit: SetBuffer() between chunks on the same memory / smaller / larger / user<->managed / refused with parser state carried over (25 %% of histories, 1-3 calls), chunk boundaries at and +-1/+-2 around token ends, candidates swallowing 3-6 complete messages, >= 24 junk bytes then a stray preamble ending a call, messages larger than / equal to the capacity split at every offset, empty messages ending a call / the stream, every payload_size in 0xFFFFFFE0..0xFFFFFFFF (C07), messages and capacities > 64 KiB and 16384/16383 (implementation vs SPEC), WarnOnError on/off as a case dimension, every combination of registered callbacks (none / C-style / std::function / both; RTCM: none / A / replaced by B) set and changed between chunks — each registered callback must see each message once with identical arguments, with none registered the return values and counts are still judged, callbacks that call Reset() re-entrantly (memory safety only), caller chunks at 4 start alignments ending exactly at the end of an exact-size heap block and compared bit-for-bit after the call, framer buffers pre-filled with sync-byte sentinels, callback pointers required to lie inside a buffer handed to the framer with payload == header + 24. A case is distinct by its full input line.' % ('all 1024' if ctx.thorough else '31'))
    ctx.coverage['exhaustive'] = False
    ctx.trusted_base += ['Coq 8.16.1 kernel + vm_compute', 'extraction (ExtrOcamlBasic only), ocaml/conv.ml + c14_driver.ml',
                         'translators/gen_c14.py (constants and CRC table derived from the behaviour of the compiled framer / compiler-evaluated table, harness/cpp/c14_probe.cc)',
                         'hand transcription of OnByte/OnData/Resync/SetBuffer control flow (held by correspondence)',
                         'ASan/UBSan harness harness/cpp/c14_framer_h.cc (memory safety of the C++ itself is runtime evidence, the no_oob theorem is about the model)',
                         'harness/py/c14_common.py (independent bit-serial CRC-24Q, frame builder, comparison)']
    ctx.assumptions += ['operator new[] returns storage aligned to at least 4 bytes (managed buffers modelled at alignment 0)',
                        'size_t is 64 bits (total_dispatched_bytes cannot wrap); unsigned is 32 bits in CRC24Hash']


def replay(ctx, rec):
    case = rec.get('case', rec)
    model, impl = build(ctx)
    line = case['line']
    print('IMPL ', vf.run_lines(impl, [line], env=ASAN_ENV)[1])
    ml = ' '.join(('BU' + t[2:]) if t.startswith('BS') else t for t in line.split() if not t.startswith('O'))
    if '/' not in line.split()[1]:
        print('MODEL', vf.run_lines(model, [ml])[1])
    print('SPEC ', vf.run_lines(model, [case.get('spec_line') or 'SPEC ' + ml])[1])
    return 0
