"""C12 — data loader results do not depend on what was read before (DataLoader.read / _read, the per-type cache)."""
import glob, json, os, sys
import vf
from translators import gen_c12
sys.path.insert(0, os.path.join(vf.VERIF, 'harness', 'py'))
import c12_gen as G

LEVEL = 'proof'
IMPL = os.path.join(vf.VERIF, 'harness', 'py', 'c12_impl.py')
NOISE = ('leap', 'Leap', 'conda')
NAMES = {}          # MessageType name -> value, filled from the translator


# ---------------------------------------------------------------------------------------------------------
# running IMPL (sharded subprocesses) and MODEL/SPEC (extracted runner)
# ---------------------------------------------------------------------------------------------------------

def run_impl(ctx, jobs, tag='j'):
    from concurrent.futures import ThreadPoolExecutor
    if not jobs:
        return []
    k = max(1, min(vf.NCPU, len(jobs)))
    shards = [list(range(i, len(jobs), k)) for i in range(k)]

    def one(si):
        ids = shards[si]
        jp = os.path.join(ctx.tmp, '%s_%d_in.json' % (tag, si)); op = os.path.join(ctx.tmp, '%s_%d_out.json' % (tag, si))
        json.dump([jobs[i] for i in ids], open(jp, 'w'))
        rc, so, se = vf.sh([vf.PY, IMPL, jp, op, os.path.join(ctx.tmp, 'logs_%s_%d' % (tag, si))], env=vf.IMPL_ENV, timeout=1500)
        if rc != 0:
            err = '\n'.join(l for l in se.split('\n') if not any(n in l for n in NOISE))
            raise RuntimeError('C12 IMPL runner failed: ' + err[-2000:])
        return json.load(open(op))
    with ThreadPoolExecutor(k) as ex:
        outs = list(ex.map(one, range(k)))
    res = [None] * len(jobs)
    for si, o in enumerate(outs):
        for i, r in zip(shards[si], o):
            res[i] = r
    return res


def tnum(name):
    return NAMES[name]


def optz(x):
    return 'N' if x is None else str(int(x))


def t8(x):
    """times and time bounds go to the model in eighths of a second"""
    return 'N' if x is None else str(int(round(float(x) * 8)))


def tr_tokens(tr):
    """the TimeRange as its constructor leaves it (and as TimeRange.__eq__ compares it): an absolute start of 0 is None"""
    if tr is None:
        return ['N', 'N', '0']
    start = None if (tr[2] and tr[0] is not None and float(tr[0]) == 0.0) else tr[0]
    return [t8(start), t8(tr[1]), '1' if tr[2] else '0']


def optlist(xs, f=str):
    return ['N'] if xs is None else [str(len(xs))] + [f(x) for x in xs]


def call_tokens(c):
    t = optlist(c['types'], lambda n: str(tnum(n)))
    t += tr_tokens(c['tr'])
    t += optlist(c['src'])
    t += ['1' if c['ign'] else '0', optz(c['max'])]
    t += ['1' if c[k] else '0' for k in ('p1', 'sys', 'order', 'bytes', 'idx', 'num', 'keep', 'nan')]
    t += [str(int(c['align']))] + optlist(c['atypes'], lambda n: str(tnum(n)))
    return t


def model_line(log, avail, tt, nn, history, geom=None):
    """geom None: table mode (J).  geom given: linked mode (K) - the reader is the C10/C11 model, times in eighths"""
    t = ['K' if geom else 'J', str(len(log))]
    for i, m in enumerate(log):
        ev = m['t'] == 'EVENT_NOTIFICATION'
        t += [str(i), str(tnum(m['t'])), str(int(m['src'])), 'N' if (ev or m['p1'] is None) else t8(m['p1']),
              '0' if ev else '1', '1' if ev else '0', '1']
        if geom:
            t += [str(geom['off'][i]), str(geom['size'][i])]
    if geom:
        t += [str(geom['fsize'])]
    t += [str(len(avail))] + [str(a) for a in avail]
    trs = []
    for k, sel in tt.items():
        trs.append(tr_tokens(json.loads(k)) + [str(len(sel))] + [str(o) for o in sel])
    t += [str(len(trs))] + [x for tr in trs for x in tr]
    t += [str(len(nn))] + [str(o) for o in nn]
    t += [str(len(history))] + [x for c in history for x in call_tokens(c)]
    return ' '.join(t)


def parse_model(line, ncalls):
    out = []
    parts = line.split(' || ')
    if len(parts) != ncalls:
        raise RuntimeError('C12 model runner: %d outcomes for %d calls: %r' % (len(parts), ncalls, line[:300]))
    for p in parts:
        d = {}
        for f in p.split('\t'):
            k, _, v = f.partition('=')
            d[k] = v
        out.append(d)
    return out


# ---------------------------------------------------------------------------------------------------------
# canonical text of an IMPL outcome in the model runner's format
# ---------------------------------------------------------------------------------------------------------

def rid(x):
    if isinstance(x, int):
        return str(x)
    _, tn, tm = x.split(':')                      # D:<type name>:<time repr>
    try:
        f = float(tm)
        ts = 'N' if f != f else str(int(round(f * 8)))     # eighths of a second, as in the model
    except ValueError:
        ts = 'N'
    return 'd%d@%s' % (tnum(tn), ts)


def show_entry(e):
    np_ = '-' if e['np'] is None else ('[?]' if e['np']['rows'] is None else '[' + ','.join(rid(x) for x in e['np']['rows']) + ']')
    return 'm[%s] np%s idx%s[%s] nb%s%d' % (','.join(rid(x) for x in e['m']), np_, e['idx'][0],
                                             ','.join(str(x) for x in e['idx'][1:]), e['nb'][0], e['nb'][1])


def show_impl(o):
    if 'exc' in o:
        return 'EXC ' + o['exc']
    if 'order' in o:
        return 'O ' + show_entry(o['order'])
    items = sorted(o['dict'].items(), key=lambda kv: tnum(kv[0]))
    return 'D ' + ' ; '.join('%d %s' % (tnum(k), show_entry(v)) for k, v in items)


def brief(text):
    """for display: leave out the entries of a dict outcome that hold nothing"""
    if not text.startswith('D '):
        return text
    ents = text[2:].split(' ; ')
    keep = [e for e in ents if not (e.split(' ', 1)[1] in ('m[] np- idxL[] nbL0', 'm[] np[] idxL[] nbL0', 'm[] np[] idxA[] nbL0', 'm[] np[] idxA[] nbA0', 'm[] np[] idxL[] nbA0'))]
    return 'D ' + ' ; '.join(keep) + (' ; (+%d empty entries)' % (len(ents) - len(keep)) if len(ents) != len(keep) else '')


def short(c):
    return {k: v for k, v in c.items() if v != G.DEFAULT_CALL[k]}


def messages_by_type(o):
    """{type name: [ids]} of an IMPL dict outcome or {'*': [ids]} for in-order"""
    if 'order' in o:
        return {'*': o['order']['m']}
    return {k: v['m'] for k, v in o['dict'].items()}


def spec_by_type(spec_ords, log, c):
    ords = [int(x) for x in spec_ords.split(',')] if spec_ords else []
    if c['order']:
        return {'*': ords}
    req = c['types'] if c['types'] is not None else None
    out = {}
    for o in ords:
        out.setdefault(log[o]['t'], []).append(o)
    return out, req


# ---------------------------------------------------------------------------------------------------------
# judging one job
# ---------------------------------------------------------------------------------------------------------

def source_filter_effective(c, log):
    if c['src'] is None:
        return False
    types = c['types'] if c['types'] is not None else G.TYPES
    return any(m['t'] in types and m['src'] not in c['src'] for m in log)


def judge(job, res, mline, want_corr=True, kline=None):
    """returns a list of issues: dict(kind='violation'|'corr'|'note', sig, text, case)"""
    issues = []
    log = job['log']
    opts = {k: job[k] for k in ('pre', 'twin', 'mutate') if job.get(k)}
    late = sorted({m['src'] for m in log} - set(res['avail']))
    # results handed out by earlier reads must be unchanged after every later read
    for hi, cj, ci, snap, now in res.get('changed', []):
        h = job['histories'][hi]
        issues.append({'kind': 'violation', 'sig': {'kind': 'earlier-result-changed'},
                       'case': {'log': log, 'history': h[:ci + 1], 'opts': opts, 'earlier_call': cj, 'was': show_impl(snap), 'now': show_impl(now)},
                       'text': 'the object returned by read(%s) (call %d) was %s when returned and is %s after the later read(%s) (call %d)'
                               % (short(h[cj]), cj, brief(show_impl(snap))[:300], brief(show_impl(now))[:300], short(h[ci]), ci)})
    for hi, (h, outs) in enumerate(zip(job['histories'], res['hist'])):
        mo = parse_model(mline[hi], len(h)) if mline is not None else None
        ko = parse_model(kline[hi], len(h)) if kline is not None else None
        for ci, (c, o) in enumerate(zip(h, outs)):
            k = json.dumps(c, sort_keys=True)
            f = res['fresh'][k]
            case = {'log': log, 'history': h[:ci + 1], 'opts': opts, 'call': short(c), 'impl_after_history': show_impl(o),
                    'impl_fresh_loader': show_impl(f)}
            if mo is not None:
                case.update({'model_after_history': mo[ci]['H'], 'model_fresh_loader': mo[ci]['F'],
                             'legacy_model_after_history': mo[ci]['L'], 'spec_messages': mo[ci]['S0']})
            # (a) the property: same call on a fresh loader
            if o != f:
                differs = 'exception' if ('exc' in o) != ('exc' in f) else \
                    ('messages' if ('exc' in o or messages_by_type(o) != messages_by_type(f)) else 'arrays-or-indices')
                sig = {'kind': 'cache-not-transparent', 'differs': differs}
                how = ''
                if opts.get('mutate'):
                    sig = {'kind': 'result-aliases-cache', 'mutation': 'element' if opts['mutate'] in ('array-write', 'payload-write') else 'container',
                           'how': opts['mutate']}
                    how = ' (the caller changed the objects returned by the earlier reads: %s)' % opts['mutate']
                elif opts.get('pre'):
                    sig = {'kind': 'cache-survives-open', 'differs': differs}
                    how = ' (the loader had read another file before open() of this one)'
                elif opts.get('twin'):
                    sig['second_loader_alive'] = True
                issues.append({'kind': 'violation', 'sig': sig, 'case': case,
                               'text': 'read(%s) after %d earlier read(s)%s returns %s; the same call on a freshly opened loader returns %s'
                                       % (short(c), ci, how, brief(show_impl(o))[:400], brief(show_impl(f))[:400])})
                if opts.get('mutate'):
                    continue
            if mo is None:
                continue
            # (b) the reader's filtered sequence, first/last N in file order (only judged once per distinct call)
            applicable = 'exc' not in f and c['align'] == 0 and not (c['p1'] and c['sys']) and (c['order'] or not c['num'] or c['keep'])
            if applicable and ci == h.index(c):
                got = messages_by_type(f)
                for which, all_sources in (('S0', False), ('S1', True)):
                    ords = [int(x) for x in mo[ci][which].split(',')] if mo[ci][which] else []
                    if c['order']:
                        want = {'*': ords}
                        gotc = got
                    else:
                        want = {}
                        for oo in ords:
                            want.setdefault(log[oo]['t'], []).append(oo)
                        gotc = {t: v for t, v in got.items() if v}
                    if gotc != want:
                        nm = res['nomax'].get(k)
                        if which == 'S1' and not late:
                            break
                        if which == 'S0':
                            sig = {'kind': 'max-messages-semantics' if c['max'] is not None else 'not-the-readers-messages',
                                   'index_pre_slice_applied': mo[ci]['P'] == '1', 'read_time_tests_drop_messages': int(mo[ci]['X']) > 0,
                                   'negative': bool(c['max'] is not None and c['max'] < 0)}
                            txt = 'read(%s) on a fresh loader returns %s; the reader\'s messages under these filters%s are %s' % (
                                short(c), gotc, '' if c['max'] is None else ' limited to the %s %d in file order' % ('first' if c['max'] >= 0 else 'last', abs(c['max'])), want)
                        else:
                            sig = {'kind': 'source-discovery', 'late_source': True, 'source_ids_given': c['src'] is not None}
                            txt = ('read(%s) on a fresh loader returns %s; messages with source id(s) %s (not among those the reader discovered by sampling %d messages per type) '
                                   'are missing%s: every source in the log gives %s' % (short(c), gotc, late, G.PROBE, '' if c['src'] is not None else ' although no source_ids were given', want))
                        cc = dict(case); cc.update({'spec_which': which, 'spec_want': want, 'impl_got': gotc, 'impl_without_max': show_impl(nm) if nm else None})
                        issues.append({'kind': 'violation', 'sig': sig, 'case': cc, 'text': txt})
                        break
            # (c) correspondence IMPL ≈ MODEL
            if want_corr:
                if 'exc' in o or 'exc' in f:
                    issues.append({'kind': 'note', 'text': 'implementation raised %s' % (o.get('exc') or f.get('exc')), 'case': case})
                elif show_impl(o) != mo[ci]['H'] or show_impl(f) != mo[ci]['F']:
                    issues.append({'kind': 'corr', 'case': case,
                                   'text': 'DataLoader model and implementation differ on read(%s) after %d earlier read(s)' % (short(c), ci)})
                elif ko is not None and (show_impl(o) != ko[ci]['H'] or show_impl(f) != ko[ci]['F']):
                    cc = dict(case); cc.update({'linked_model_after_history': ko[ci]['H'], 'linked_model_fresh_loader': ko[ci]['F']})
                    issues.append({'kind': 'corr', 'case': cc,
                                   'text': 'DataLoader model composed with the C10/C11 reader model (linked mode) and implementation differ on read(%s) after %d earlier read(s)' % (short(c), ci)})
    return issues


def evaluate(ctx, model, jobs, tag='j', want_corr=True):
    res = run_impl(ctx, jobs, tag)
    lines, spans = [], []
    for job, r in zip(jobs, res):
        bad_tt = [k for k, v in r['tt'].items() if isinstance(v, dict)] + ([1] if isinstance(r['nn'], dict) else [])
        if bad_tt:
            spans.append(None); continue
        spans.append((len(lines), len(job['histories'])))
        for h in job['histories']:
            lines.append(model_line(job['log'], r['avail'], r['tt'], r['nn'], h))
    mout = vf.run_parallel(model, lines) if lines else []
    # linked mode: the same histories with the reader being the extracted C10/C11 model instead of the tables
    klines, kspans = [], []
    if want_corr:
        for job, r in zip(jobs, res):
            g = r.get('geom')
            if not g or 'exc' in g or len(g['off']) != len(job['log']) or not G.times_nondecreasing(job['log']) or any(c['tr'] is not None and c['tr'][2] is False and not any(m['p1'] is not None for m in job['log']) for h in job['histories'] for c in h):
                kspans.append(None); continue
            kspans.append((len(klines), len(job['histories'])))
            for h in job['histories']:
                klines.append(model_line(job['log'], r['avail'], {}, [], h, geom=g))
    kout = vf.run_parallel(model, klines) if klines else []
    allissues = []
    for i, (job, r, sp) in enumerate(zip(jobs, res, spans)):
        ml = None if sp is None else mout[sp[0]:sp[0] + sp[1]]
        ks = kspans[i] if want_corr and i < len(kspans) else None
        kl = None if ks is None else kout[ks[0]:ks[0] + ks[1]]
        allissues.append(judge(job, r, ml, want_corr, kl))
    evaluate.linked = len(klines)
    return res, allissues


# ---------------------------------------------------------------------------------------------------------
# shrinking
# ---------------------------------------------------------------------------------------------------------

def shrink(ctx, model, log, history, sig, budget=12, opts=None):
    """greedy: drop earlier calls, reset arguments to defaults, drop log messages, while a violation with the same
    signature is still reported for the last call"""
    def candidates(log, h):
        out = []
        for i in range(len(h) - 1):
            out.append((log, h[:i] + h[i + 1:]))
        for i, c in enumerate(h):
            for k, v in c.items():
                if v != G.DEFAULT_CALL[k]:
                    d = dict(c); d[k] = G.DEFAULT_CALL[k]
                    if k == 'types' and v is not None and len(v) > 1:
                        for t in v:
                            d2 = dict(c); d2['types'] = [x for x in v if x != t]
                            d2['atypes'] = None
                            out.append((log, h[:i] + [d2] + h[i + 1:]))
                        continue
                    out.append((log, h[:i] + [d] + h[i + 1:]))
        for i in range(len(log)):
            l2 = log[:i] + log[i + 1:]
            if any(m['p1'] is not None for m in l2):
                out.append((l2, h))
        return out

    def still(issues, n):
        return any(i['kind'] == 'violation' and i['sig'] == sig and len(i['case']['history']) == n for i in issues)
    for _ in range(budget):
        cands = candidates(log, history)
        if not cands:
            break
        jobs = [dict(opts or {}, log=l, histories=[h]) for l, h in cands]
        try:
            _, iss = evaluate(ctx, model, jobs, tag='s', want_corr=False)
        except RuntimeError:
            break
        nxt = next(((l, h) for (l, h), i in zip(cands, iss) if still(i, len(h))), None)
        if nxt is None:
            break
        log, history = nxt
    return log, history


# ---------------------------------------------------------------------------------------------------------

def corpus_jobs():
    jobs = []
    for p in sorted(glob.glob(os.path.join(vf.VERIF, 'corpus', 'C12', '*.json'))):
        c = json.load(open(p))
        j = {'log': c['log'], 'histories': [[G.call(**x) for x in c['history']]], 'name': os.path.basename(p)}
        for k in ('twin', 'mutate'):
            if c.get(k):
                j[k] = c[k]
        if c.get('pre'):
            j['pre'] = {'log': c['pre']['log'], 'calls': [G.call(**x) for x in c['pre']['calls']]}
        jobs.append(j)
    return jobs


def make_jobs(ctx):
    r = ctx.rng
    jobs = corpus_jobs()
    alpha = G.small_scope_histories()
    fixed = G.fixed_log()
    pairs = [[a, b] for a in alpha for b in alpha]
    if ctx.thorough:
        pairs += [[a, b, a] for a in alpha for b in alpha if a != b]
    for i in range(0, len(pairs), 400):
        jobs.append({'log': fixed, 'histories': pairs[i:i + 400]})
    # structured 3-call family A ; partial invalidation B ; A on logs that interleave the types
    aba = G.partial_invalidation_histories()
    for lg in (G.interleaved_log(), fixed):
        for i in range(0, len(aba), 300):
            jobs.append({'log': lg, 'histories': aba[i:i + 300]})
    # "equal-looking" argument pairs on logs whose first P1 time is not 0 / not a whole second
    for lg in (G.lookalike_log(False), G.lookalike_log(True)):
        la = G.lookalike_histories(lg)
        if not ctx.thorough:
            la = la[::2] if lg[1]['p1'] == int(lg[1]['p1']) else la[1::2]
        for i in range(0, len(la), 300):
            jobs.append({'log': lg, 'histories': la[i:i + 300]})
    # the builders' harness checklist: stale reader filters, extreme maxima, numpy reads that find nothing, alignment
    # after other types were cached, repeated / out-of-order P1 times
    inter, dis = G.interleaved_log(), G.disorder_log()
    for lg in (G.lookalike_log(False), dis):
        ch = G.checklist_histories(lg)
        for i in range(0, len(ch), 300):
            jobs.append({'log': lg, 'histories': ch[i:i + 300]})
    # what a caller does with returned objects must not reach the cache; a second loader on the same file; a second
    # file on the same loader
    basic = [h for h in G.partial_invalidation_histories()[::29]] + [[a, dict(a)] for a in alpha[::2]] + [[a, b, dict(a)] for a, b in zip(alpha[::3], alpha[1::3])]
    mh = G.mutation_histories()
    for kind in ('clear', 'append', 'popkey', 'to_numpy', 'align', 'array-write', 'payload-write'):
        jobs.append({'log': inter, 'histories': basic + mh, 'mutate': kind})
    jobs.append({'log': inter, 'histories': basic + G.checklist_histories(inter)[::7], 'twin': True})
    jobs.append({'log': inter, 'histories': basic, 'pre': {'log': fixed, 'calls': [G.call(), G.call(types=['POSE'], num=True, keep=True), G.call(types=['POSE', 'POSE_AUX'], max=2)]}})
    jobs.append({'log': fixed, 'histories': basic[::2], 'pre': {'log': dis, 'calls': [h[0] for h in basic[:12]]}})
    nlogs, per, L = (160, 120, 5) if ctx.thorough else (48, 50, 3)
    for i in range(nlogs):
        log = G.gen_log(r, late_source=(i % 8 == 7))
        hs = [G.gen_history(r, log, r.randint(2, L)) for _ in range(per)]
        jobs.append({'log': log, 'histories': hs})
    return jobs


def run(ctx):
    consts = gen_c12.generate()
    NAMES.update(consts.pop('names'))
    G.PROBE = consts['probe']
    ctx.notes.append('generated constants: %r' % consts)
    if not ctx.coq():
        ctx.broken_proof()
    elif ctx.thorough and hasattr(ctx, 'coqchk') and not ctx.coqchk():
        ctx.broken_proof('coqchk does not accept the compiled development')
    model = vf.build_extracted('c12', 'C12', 'c12_driver.ml')
    jobs = make_jobs(ctx)
    ctx.log('%d jobs, %d histories' % (len(jobs), sum(len(j['histories']) for j in jobs)))
    res, allissues = evaluate(ctx, model, jobs)
    ctx.log('evaluated')

    def is_known(sig):
        return any(f.get('status') == 'known' and all(sig.get(k) == v for k, v in f.get('match', {}).items()) for f in ctx.findings)
    ncorr = 0
    shrunk = set()
    for job, r, issues in zip(jobs, res, allissues):
        if r['need'] != [False, False]:
            ctx.notes.append('private state: _need_t0/_need_system_t0 after open() = %r (the model assumes False, False)' % r['need'])
        for h, outs in zip(job['histories'], r['hist']):
            for ci, c in enumerate(h):
                ctx.case(('C', json.dumps(job['log'], sort_keys=True), json.dumps(h[:ci + 1], sort_keys=True)), nontrivial=ci > 0)
                ctx.count('calls')
                ctx.count('history-position-%d' % ci)
                for k in ('max', 'num', 'order', 'ign', 'align', 'p1', 'sys', 'src', 'tr', 'idx'):
                    if c[k] not in (None, False, 0):
                        ctx.count('arg:' + k)
                ctx.count('types:' + ('all' if c['types'] is None else str(len(c['types']))))
                o = outs[ci]
                ctx.count('outcome:' + ('exception' if 'exc' in o else 'in-order' if 'order' in o else 'dict'))
        for i in issues:
            if i['kind'] == 'note':
                ctx.count('impl-exception')
                continue
            if i['kind'] == 'corr':
                ncorr += 1
                if ncorr == 1:
                    ctx.broken_correspondence(i['text'], i['case'])
                continue
            key = json.dumps(i['sig'], sort_keys=True)
            case = i['case']
            if key not in shrunk and len(shrunk) < 4 and not is_known(i['sig']):
                shrunk.add(key)
                try:
                    l2, h2 = shrink(ctx, model, case['log'], case['history'], i['sig'], opts=case.get('opts'))
                    _, iss2 = evaluate(ctx, model, [dict(case.get('opts') or {}, log=l2, histories=[h2])], tag='r', want_corr=False)
                    hit = [x for x in iss2[0] if x['kind'] == 'violation' and x['sig'] == i['sig'] and len(x['case']['history']) == len(h2)]
                    if hit:
                        i = hit[0]; case = dict(hit[0]['case']); case['shrunk'] = True
                except Exception as e:
                    ctx.notes.append('shrinking failed: %r' % (e,))
            case = dict(case); case['history'] = [short(c) for c in case['history']]
            ctx.violation(i['sig'], i['text'], case)
    ctx.count('correspondence-mismatches', ncorr)
    ctx.count('histories-also-run-in-linked-mode', getattr(evaluate, 'linked', 0))
    if jobs:
        j = jobs[-1]
        ctx.sample({'log': [(m['t'], m['p1'], m['src']) for m in j['log']], 'history': [short(c) for c in j['histories'][0]],
                    'impl': [show_impl(o)[:200] for o in res[-1]['hist'][0]]})
    ctx.coverage['rule'] = ('corpus (minimised past failures) first; on the 10-message log of the library\'s own loader test every ordered pair%s over a 40-call alphabet '
                            '(types x max_messages x numpy/keep_messages, alignment, require_p1_time, in-order); the structured family A ; B ; A (A over a type set S with a maximum of either sign / numpy / alignment, B re-reading a proper subset of S with other parameters, so the second A meets a partially valid cache) on that log and on a 16-message log interleaving four types; pairs of equal-looking argument values (same bounds as relative / absolute range in object, string, tuple and Timestamp form; the same types as list / set / tuple / classes / single value; max_messages N vs -N; no source_ids vs the full set) as A;B, B;A, A;B;A on two logs whose first P1 time is 3 s resp. 2.5 s; the checklist shapes (narrow read then a read whose limit must not see the stale filtered index; maxima 0 and |N| >= matches with require_p1_time / require_system_time; numpy reads finding messages then none; aligned reads after other types were cached; single-type aligned vs unaligned) also on a log with repeated and out-of-order P1 times; every result handed out earlier is re-canonicalised after each later read; jobs in which the caller mutates returned objects (7 kinds; results obtained by a first read, a cached read, ignore_cache=True and return_in_order=True reads, with and without numpy / alignment / maximum, each followed by the identical read and by the same read without ignore_cache), a second loader reads the same file in between, or the loader had read another file before open(); then %d generated logs (5-14 messages of 4 types, first P1 time never 0 and often fractional, '
                            'invalid P1 stamps, 1-2 source ids; every 8th log has 24-30 messages and a source id first seen after the reader\'s sampling window) x %d histories '
                            'of 2..%d read() calls whose later calls are mostly one-argument mutations of earlier ones (so cache keys collide; 30%% of the histories of length >= 3 are random members of the A ; B ; A family). Every call of every history is '
                            'compared with the same call on a fresh loader (SPEC oracle), with the extracted MODEL (after the same history, and fresh) and its messages with the '
                            'extracted SPEC filter (first/last N in file order). A case = (log, history prefix); non-trivial = at least one earlier read.'
                            % (' and triple a;b;a' if ctx.thorough else '', (160 if ctx.thorough else 48), (120 if ctx.thorough else 50), (5 if ctx.thorough else 3)))
    ctx.coverage['exhaustive'] = False
    ctx.trusted_base += ['Coq 8.16.1 kernel + vm_compute', 'extraction (ExtrOcamlBasic only) and ocaml/conv.ml + c12_driver.ml',
                         'hand transcription of DataLoader._read / MessageData.to_numpy control flow (held by correspondence)',
                         'linked mode: every history is also run with the reader being the extracted C10/C11 reader model (Models/LogReaderM.v, FileIndexOpsM.v through Models/DataLoaderLinkM.v; proved equal to the environment of the composed theorems), table mode kept as the primary correspondence',
                         'the reader (MixedLogReader + FileIndex) is abstract in the C12 theorems proper; in the correspondence run its FileIndex[TimeRange] selections and '
                         'available source ids are taken from the implementation itself (C10/C13 own their semantics)',
                         'DataLoader.time_align_data is abstract in the theorems; align_impl (np.intersect1d/np.unique on P1 seconds, NaN never matches) re-implements it for the correspondence run (C15 owns it)',
                         'translators/gen_c12.py (ast: params keys, deque-break guard; interpreter: type tables, defaults, alignment modes)',
                         'harness/py/c12_impl.py message markers (file ordinal carried in a payload field) and canonicalisation of returned objects']
    ctx.assumptions += ['the log has an index (fast_generate_index always returns one), so after open() _need_t0 = _need_system_t0 = False and the establishing-t0 branch of _read is dead (model: OutUnmodelled, proved unreachable)',
                        'max_bytes is None; messages decode (payload classes exist) in generated logs; at least one valid P1 stamp per log',
                        'a read() that raises is outside the model (the generator does not request a class-less MessageType together with time alignment, which raises TypeError in time_align_data)']


def replay(ctx, rec):
    consts = gen_c12.generate()
    NAMES.update(consts.pop('names')); G.PROBE = consts['probe']
    case = rec.get('case', rec)
    if rec.get('kind', '').startswith('broken-'):
        case = rec['detail'].get('case', {})
    if 'log' not in case:
        print(json.dumps(rec, indent=1)[:3000]); return 0
    model = vf.build_extracted('c12', 'C12', 'c12_driver.ml')
    h = [G.call(**c) for c in case['history']]
    res, issues = evaluate(ctx, model, [dict(case.get('opts') or {}, log=case['log'], histories=[h])], tag='p')
    r = res[0]
    line = model_line(case['log'], r['avail'], r['tt'], r['nn'], h)
    mo = parse_model(vf.run_lines(model, [line])[1][0], len(h))
    for ci, c in enumerate(h):
        print('call %d: read(%s)' % (ci, short(c)))
        print('  IMPL  after history :', brief(show_impl(r['hist'][0][ci])))
        print('  IMPL  fresh loader  :', brief(show_impl(r['fresh'][json.dumps(c, sort_keys=True)])), '  <- SPEC oracle of the property')
        print('  MODEL after history :', brief(mo[ci]['H']))
        print('  MODEL fresh loader  :', brief(mo[ci]['F']))
        print('  SPEC  messages      :', mo[ci]['S0'], '| all sources:', mo[ci]['S1'])
    bad = [i for i in issues[0] if i['kind'] in ('violation', 'corr')]
    for i in bad:
        print(i['kind'].upper() + ':', i['text'][:600])
    import shutil
    shutil.rmtree(ctx.tmp, ignore_errors=True)
    return 1 if bad else 0
