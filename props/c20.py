"""C20 — C++ data-version text conversion is a safe, exact round trip."""
import itertools, os
import vf
from translators import gen_c20

LEVEL = 'proof'
ALPHA = [ord(c) for c in '0123456789.-+x '] 
SRC = [os.path.join(vf.REPO, 'src/point_one/fusion_engine/messages/data_version.cc')]
ASAN_ENV = dict(os.environ, ASAN_OPTIONS='halt_on_error=0:suppress_equal_pcs=0:detect_leaks=0', UBSAN_OPTIONS='print_stacktrace=0')


def strings(ctx):
    """exhaustive short strings + structured + random longer ones; returns list of bytes"""
    out = []
    maxlen = 4 if ctx.thorough else 3
    small = [ord(c) for c in '019.-+x '] if not ctx.thorough else ALPHA
    for n in range(0, maxlen + 1):
        for t in itertools.product(small, repeat=n):
            out.append(bytes(t))
    r = ctx.rng
    # structured: numbers around the limits, with decorations
    nums = ['0', '1', '9', '10', '99', '254', '255', '256', '257', '999', '65534', '65535', '65536', '70000', '007', '00',
            '4294967296', '9223372036854775807', '9223372036854775808', '99999999999999999999999', '',
            # numerals another base would read differently (octal / hex / binary prefixes, exponents, digit separators)
            '010', '017', '08', '09', '0100', '0377', '0400', '000255', '0x10', '0X1F', '0x', '0b1', '0o7', '1e2', '1E1', '1_0', "1'0", '١']
    decos = ['', ' ', '+', '-', 'x', '.', '\t', '0x']
    for a in nums:
        for b in nums:
            for sep in ['.', '', 'x', '..', ' ', ',', '-', '.+', '.-', '. ']:
                out.append((a + sep + b).encode())
    for _ in range(4000 if ctx.thorough else 1200):
        a, b = r.choice(nums), r.choice(nums)
        s = r.choice(decos) + a + r.choice(decos) + r.choice(['.', '.', '.', 'x', '']) + r.choice(decos) + b + r.choice(decos)
        out.append(s.encode())
    for _ in range(20000 if ctx.thorough else 3000):
        n = r.randint(5, 24)
        out.append(bytes(r.choice(ALPHA + [0x80, 0xff, 9, 10, 13, 1]) for _ in range(n)))
    # long digit runs (strtol clamp)
    for n in (30, 100, 1000, 3000):
        out.append(b'1' * n + b'.1'); out.append(b'1.' + b'1' * n); out.append(b'0' * n + b'1.' + b'0' * n + b'2')
    seen, uniq = set(), []
    for s in out:
        if s not in seen and 0 not in s:
            seen.add(s); uniq.append(s)
    return uniq


def kind(s):
    t = s.decode('latin1')
    if t == '': return 'empty'
    if '.' not in t: return 'no-dot'
    a, _, b = t.partition('.')
    if a.isdigit() and b.isdigit() and a.isascii() and b.isascii():
        return 'grammar-inrange' if int(a) <= 255 and int(b) <= 65535 else 'grammar-outofrange'
    return 'malformed-with-dot'


def run(ctx):
    guard0 = vf.build_cpp('c20_guard', [os.path.join(vf.VERIF, 'harness/cpp/c20_h.cc')] + SRC, sanitize=False)
    try:
        consts = gen_c20.generate(guard0)
        ctx.notes.append('generated constants (derived from the behaviour of the compiled source): %r' % consts)
        ctx.obligation('translator gen_c20 derived base and limits from the working tree', True, 'translator', repr(consts))
    except Exception as e:
        # keep going with the last generated (or the documented) constants so that the failing-input search still runs
        ctx.obligation('translator gen_c20 derived base and limits from the working tree', False, 'translator', repr(e)[:300])
        ctx.pending_broken = {'kind': 'translator', 'what': 'gen_c20 cannot derive the constants of FromString from the working tree: %r' % (e,)}
        gen = os.path.join(vf.THEORIES, 'Generated', 'DataVersionConsts.v')
        if not os.path.exists(gen):
            vf.write_if_changed(gen, 'From Coq Require Import ZArith.\nOpen Scope Z_scope.\nDefinition strtol_base : Z := 10.\nDefinition major_max : Z := 255.\nDefinition minor_max : Z := 65535.\n')
    if not ctx.coq():
        if not getattr(ctx, 'pending_broken', None):
            ctx.broken_proof()
    elif ctx.thorough and not ctx.coqchk():
        ctx.broken_proof('coqchk rejected the compiled development')
    model = vf.build_extracted('c20', 'C20', 'c20_driver.ml')
    guard = vf.build_cpp('c20_guard', [os.path.join(vf.VERIF, 'harness/cpp/c20_h.cc')] + SRC, sanitize=False)
    asan = vf.build_cpp('c20_asan', [os.path.join(vf.VERIF, 'harness/cpp/c20_h.cc')] + SRC,
                        extra_flags='-DUSE_ASAN -fsanitize-recover=address')

    # ---- parse: IMPL (guard page, all; ASan, all) vs MODEL vs SPEC --------------------------------------
    ss = strings(ctx)
    lines = ['P ' + (s.hex() or '-') for s in ss]
    impl = vf.run_parallel(guard, lines)
    impl_asan = vf.run_parallel(asan, lines, env=ASAN_ENV)
    mdl = vf.run_parallel(model, lines)
    spec = vf.run_parallel(model, ['SPEC ' + (s.hex() or '-') for s in ss])
    nviol = 0
    for s, i, ia, m, sp in zip(ss, impl, impl_asan, mdl, spec):
        k = kind(s)
        ctx.count('parse:' + k)
        ctx.case(('P', s), nontrivial=True)
        case = {'op': 'FromString', 'string_hex': s.hex(), 'string': s.decode('latin1'), 'impl_guardpage': i, 'impl_asan': ia, 'model': m, 'spec': sp}
        if i != sp or ia != sp:
            oob = 'OOB' in (i, ia)
            sig = {'op': 'FromString', 'class': 'reads-past-terminator' if oob else ('accepts-malformed' if sp == '255 65535' else 'wrong-value'), 'kind': k}
            if nviol < 1 or ctx.violation.__self__ is None:
                pass
            ctx.violation(sig, 'FromString(%r): implementation gives %s (ASan build: %s), the grammar "<0-255>.<0-65535>" gives %s'
                          % (s.decode('latin1'), i, ia, sp), case)
            nviol += 1
        elif i != m:
            ctx.broken_correspondence('FromString model and implementation differ on %r' % s, case)
    # the std::string overload must give the same answers (no over-read detection there: the string owns its buffer)
    implq = vf.run_parallel(guard, ['Q ' + (s.hex() or '-') for s in ss])
    for s, q, sp in zip(ss, implq, spec):
        ctx.case(('Q', s)); ctx.count('parse-std-string-overload')
        if q != sp:
            ctx.violation({'op': 'FromString', 'class': 'std-string-overload-differs', 'kind': kind(s)},
                          'FromString(std::string(%r)) gives %s, the grammar gives %s' % (s.decode('latin1'), q, sp),
                          {'op': 'FromString(std::string)', 'string_hex': s.hex(), 'impl': q, 'spec': sp})
            break
    ctx.sample({'FromString': [(s.decode('latin1'), i) for s, i in list(zip(ss, impl))[::max(1, len(ss) // 8)]][:8]})

    # ---- ToString / round trip / IsValid / operators --------------------------------------------------
    r = ctx.rng
    if ctx.thorough:
        vers = [(a, b) for a in range(256) for b in range(65536)]
    else:
        edge_b = [0, 1, 9, 10, 99, 100, 999, 1000, 9999, 10000, 10001, 32767, 32768, 65534, 65535]
        vers = [(a, b) for a in range(256) for b in edge_b] + [(r.randrange(256), r.randrange(65536)) for _ in range(20000)]
        vers = list(dict.fromkeys(vers))
    tl = ['T %d %d' % v for v in vers]
    it = vf.run_parallel(guard, tl)
    mt = vf.run_parallel(model, tl)
    istream = vf.run_parallel(guard, ['S %d %d' % v for v in vers])
    # parse back what the implementation printed
    back = vf.run_parallel(guard, ['P ' + h for h in it])
    for v, a, b, s, bk in zip(vers, it, mt, istream, back):
        ctx.case(('T', v)); ctx.count('tostring')
        valid = v != (255, 65535)
        case = {'op': 'ToString/FromString', 'version': v, 'impl_text': bytes.fromhex(a).decode('latin1'), 'model_text': bytes.fromhex(b).decode('latin1'), 'parsed_back': bk}
        if valid and bk != '%d %d' % v:
            ctx.violation({'op': 'roundtrip', 'class': 'roundtrip-differs'}, 'FromString(ToString(%d.%d)) = %s' % (v[0], v[1], bk), case)
        elif not valid and bk != '255 65535':
            ctx.violation({'op': 'roundtrip', 'class': 'invalid-not-invalid'}, 'the invalid version prints as text that parses to %s' % bk, case)
        elif a != b or s != a:
            ctx.broken_correspondence('ToString / operator<< differ from the model on %r' % (v,), case)
    # IsValid() on every version: only (255, 65535) is invalid
    iv = vf.run_parallel(guard, ['V %d %d' % v for v in vers])
    mv = vf.run_parallel(model, ['V %d %d' % v for v in vers])
    for v, a, b in zip(vers, iv, mv):
        ctx.case(('V', v)); ctx.count('isvalid')
        want = '0' if v == (255, 65535) else '1'
        if a != want:
            ctx.violation({'op': 'IsValid', 'class': 'wrong-validity'}, 'IsValid() of %d.%d is %s' % (v[0], v[1], a), {'op': 'IsValid', 'version': v, 'impl': a})
            break
        if a != b:
            ctx.broken_correspondence('IsValid model differs on %r' % (v,), {'version': v, 'impl': a, 'model': b})
    # ToString must not depend on the global C++ locale (a grouping locale would print "1,000")
    gl = [(a, b) for (a, b) in vers if b >= 1000][:4000] + [(255, 65534), (0, 1000), (100, 10000)]
    out = vf.run_lines(guard, ['G on'] + ['T %d %d' % v for v in gl] + ['G off'])[1]
    for v, a in zip(gl, out[1:1 + len(gl)]):
        ctx.case(('TG', v)); ctx.count('tostring-under-grouping-locale')
        want = ('%d.%d' % v).encode().hex() if v != (255, 65535) else b'<invalid>'.hex()
        if a != want:
            ctx.violation({'op': 'ToString', 'class': 'depends-on-global-locale'},
                          'ToString(%d.%d) under a global locale with digit grouping gives %r' % (v[0], v[1], bytes.fromhex(a).decode('latin1')),
                          {'op': 'ToString under grouping locale', 'version': v, 'impl_text': bytes.fromhex(a).decode('latin1')})
            break
    # comparison operators: all pairs over a boundary grid + random
    g = [(a, b) for a in (0, 1, 2, 127, 128, 254, 255) for b in (0, 1, 255, 256, 32767, 32768, 65534, 65535)]
    pairs = [(x, y) for x in g for y in g] + [((r.randrange(256), r.randrange(65536)), (r.randrange(256), r.randrange(65536))) for _ in range(5000)]
    cl = ['C %d %d %d %d' % (x + y) for x, y in pairs]
    ic = vf.run_parallel(guard, cl)
    mc = vf.run_parallel(model, cl)
    for (x, y), a, b in zip(pairs, ic, mc):
        ctx.case(('C', x, y)); ctx.count('compare')
        lex = [x == y, x != y, x < y, x > y, x <= y, x >= y]
        want = ' '.join('1' if t else '0' for t in lex)
        case = {'op': 'compare', 'a': x, 'b': y, 'impl': a, 'model': b, 'lexicographic': want}
        if a != want:
            ctx.violation({'op': 'compare', 'class': 'order-not-lexicographic'}, 'operators on %r vs %r give %s, lexicographic order gives %s' % (x, y, a, want), case)
        elif a != b:
            ctx.broken_correspondence('comparison model differs on %r %r' % (x, y), case)
    # the same operators on objects read off the wire with arbitrary reserved bytes: only (major, minor) may matter
    rp = [(r.choice([0, 1, 0x7f, 0xfe, 0xff]), x, r.choice([0, 0xff, 0x80]), y) for x, y in pairs[:3136:3]] + \
         [(0, x, 0xff, x) for x in g] + [(0xff, x, 0, x) for x in g]
    rl = ['CR %d %d %d %d %d %d' % (ra, x[0], x[1], rb, y[0], y[1]) for ra, x, rb, y in rp]
    ir = vf.run_parallel(guard, rl)
    for (ra, x, rb, y), a in zip(rp, ir):
        ctx.case(('CR', ra, x, rb, y)); ctx.count('compare-raw-reserved')
        lex = [x == y, x != y, x < y, x > y, x <= y, x >= y]
        want = ' '.join('1' if t else '0' for t in lex)
        if a != want:
            ctx.violation({'op': 'compare', 'class': 'order-depends-on-reserved-byte'},
                          'operators on (reserved=%d) %r vs (reserved=%d) %r give %s, lexicographic order on (major, minor) gives %s' % (ra, x, rb, y, a, want),
                          {'op': 'compare-raw', 'a': [ra] + list(x), 'b': [rb] + list(y), 'impl': a, 'lexicographic': want})
            break
    ctx.coverage['rule'] = ('strings: all strings of length <= %d over %s, number pairs around 255/65535/LONG_MAX with 10 separators and decorations, random strings; '
                            'each parsed from a buffer whose terminator is the last byte before a PROT_NONE page and again from an exact-size heap block under ASan; '
                            'versions: %s; operator pairs: 56x56 grid + 5000 random. A case is non-trivial/distinct by its input.' % (4 if ctx.thorough else 3, 'digits . - + x space', 'all 2^24' if ctx.thorough else '256 majors x 12 edge minors + 20000 random'))
    ctx.coverage['exhaustive'] = False
    ctx.trusted_base += ['Coq 8.16.1 kernel + vm_compute', 'extraction (ExtrOcamlBasic only) and ocaml/conv.ml + c20_driver.ml',
                         'glibc strtol modelled by strtol10 (skip isspace, sign, digits, clamp; never reads past the first non-digit)',
                         'translators/gen_c20.py (regex extraction of base and limits)', 'guard-page and ASan harness harness/cpp/c20_h.cc']
    ctx.assumptions += ['char is 8 bits; the C locale isspace set', 'std::to_string / operator<< print plain decimal (held by correspondence)']


def replay(ctx, rec):
    case = rec.get('case', rec)
    guard = vf.build_cpp('c20_guard', [os.path.join(vf.VERIF, 'harness/cpp/c20_h.cc')] + SRC, sanitize=False)
    model = vf.build_extracted('c20', 'C20', 'c20_driver.ml')
    if 'string_hex' in case:
        l = 'P ' + (case['string_hex'] or '-')
        print('IMPL ', vf.run_lines(guard, [l])[1]); print('MODEL', vf.run_lines(model, [l])[1]); print('SPEC ', vf.run_lines(model, ['S' + 'PEC ' + l[2:]])[1])
    else:
        print(case)
    return 0
