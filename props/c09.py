"""C09 — a saved index is either equivalent to a fresh one or is rejected."""
import hashlib, json, os, struct
import vf
from translators import gen_fe, gen_c09
from props import c18

LEVEL = 'proof'
HARNESS = os.path.join(vf.VERIF, 'harness/py/c09_impl.py')
CORPUS = os.path.join(vf.VERIF, 'corpus', 'C09')
REC = 14


def build_model():
    exe = vf.build_extracted('c09', 'C09', 'c09_driver.ml')
    return ['/bin/sh', '-c', 'ulimit -s unlimited 2>/dev/null || ulimit -s 4000000; exec ' + exe]


def run_impl(ctx, mode, recs, nproc=None):
    saved = c18.HARNESS
    c18.HARNESS = HARNESS
    try:
        return c18.run_impl(ctx, mode, recs, nproc)
    finally:
        c18.HARNESS = saved


LOG_SHAPES_QUICK = [
    ['msg-timed', 'msg-timed', 'msg-untimed', 'msg-timed'],
    ['junk', 'msg-timed', 'junk-sync', 'msg-unknown', 'rtcm', 'msg-timed', 'junk'],       # junk between and a junk tail
    ['msg-timed', 'msg-type0', 'msg-timed'],                                              # a type-0 message in the middle
    ['msg-untimed', 'msg-timed', 'msg-type0'],                                            # last message of type 0: saved without EOF marker
    ['msg-invalidstamp'],                                                                 # a single message
    ['msg-timed', 'msg-untimed', 'msg-unknown', 'junk'],                                  # unequal messages, junk tail
    ['msg-unknown', 'msg-large', 'msg-timed'],                                            # a message of several KiB
    ['msg-empty', 'wrapper', 'corrupt-crc', 'msg-bigstamp', 'msg-shortpayload', 'truncated'],  # ends in a cut message
]


def make_logs(ctx, g):
    r = ctx.rng
    shapes = list(LOG_SHAPES_QUICK)
    if ctx.thorough:
        for _ in range(38):
            n = r.choice([1, 2, 3, 4, 5, 7])
            sh = []
            for _ in range(n):
                if r.random() < 0.35:
                    sh.append(r.choice(c18.NOISE_KINDS))
                sh.append(r.choice(c18.MSG_KINDS + ['msg-type0']))
            if r.random() < 0.4:
                sh.append(r.choice(['junk', 'junk-sync', 'truncated', 'rtcm', 'false-header-pastend']))
            shapes.append(sh)
    return [[[k, g.piece(k).hex()] for k in sh] for sh in shapes]


def frames_of(line):
    return [] if line == '-' else [[int(a) for a in x.split(':')] for x in line.split(',')]


def classify_index(p1i, full):
    if p1i is None:
        return 'absent'
    n = len(p1i) // 2
    if n == len(full) // 2 and p1i == full:
        return 'full'
    if n < REC:
        return 'short(<1 record)'
    return 'cut-at-record' if n % REC == 0 else 'cut-in-record'


def parse_o(line):
    if line == 'crash':
        return {'crash': True}
    d = dict(kv.split('=', 1) for kv in line.split(';'))
    return {'load': d['load'], 'msgs': frames_of(d['msgs']), 'p1i': None if d['p1i'] == 'none' else ('' if d['p1i'] == '-' else d['p1i'])}


NAMES = ['log.p1log', 'capture.bin', 'capture.raw', 'session', 'session.5.log', 'input.p1log']   # data file names: the index is <stem>.p1i


def is_msg(kind):
    return kind.startswith('msg-') or kind == 'wrapper'


def replacements(g, pieces, others):
    """the data file REPLACED by a different file (property text: "replaced by a file of different size"): files derived
    from the indexed log by permuting / resizing messages and stripping / adding junk, and unrelated logs."""
    P = [list(x) for x in pieces]
    mi = [i for i, (k, _) in enumerate(P) if is_msg(k)]
    out = []

    def strip_tail(Q):
        Q = list(Q)
        while Q and not is_msg(Q[-1][0]):
            Q.pop()
        return Q
    if len(mi) >= 2:
        Q = list(P); Q[mi[0]], Q[mi[1]] = Q[mi[1]], Q[mi[0]]
        out.append(('replaced-swap-first-two', Q))
        out.append(('replaced-swap-first-two-tail-stripped', strip_tail(Q)))
        Q = list(P)
        for a, b in zip(mi, reversed(mi)):
            Q[a] = P[b]
        out.append(('replaced-messages-reversed', Q))
        out.append(('replaced-messages-reversed-tail-stripped', strip_tail(Q)))
    out.append(('replaced-tail-junk-stripped', strip_tail(P)))
    out.append(('replaced-all-junk-stripped', [x for x in P if is_msg(x[0])]))
    out.append(('replaced-junk-prepended', [['junk', g.junk_head.hex()]] + P))
    out.append(('replaced-junk-tail-added', P + [['junk', g.junk_head.hex()]]))
    if mi:
        Q = list(P); Q[mi[0]] = ['msg-unknown', g.resized.hex()]
        out.append(('replaced-first-message-resized', Q))
        out.append(('replaced-first-message-resized-tail-stripped', strip_tail(Q)))
        Q = list(P); Q[mi[-1]] = ['msg-unknown', g.resized.hex()]
        out.append(('replaced-last-message-resized', Q))
    for o in others:
        out.append(('replaced-other-log', o))
    return [(n, c18.file_of(Q)) for n, Q in out]


def histories(ctx, g, d, frames, k, nrec_full, other):
    """data-file histories after the index of d was saved and cut to k bytes. Returns [(name, bytes)]."""
    r = ctx.rng
    hs = [('same', d), ('append-message', d + g.appended), ('append-junk', d + b'\x00junk.'), ('truncate-to-0', b'')]
    j = k // REC - 1                       # last record that survives in the index
    bounds = sorted(set([o for o, n in frames] + [o + n for o, n in frames]))
    if ctx.thorough:
        pick = bounds
    else:
        pick = []
        if 0 <= j < len(frames):
            pick += [frames[j][0] + frames[j][1], frames[j][0]]      # end / start of the last indexed message
        pick += [r.choice(bounds)] if bounds else []
    for b in sorted(set(pick)):
        if b != len(d):
            hs.append(('truncate-to-boundary', d[:b]))
    mids = []
    if 0 <= j < len(frames):
        o, n = frames[j]
        mids += [o + 1, o + 23, o + 24, o + n - 1]
    elif frames:
        o, n = frames[-1]
        mids += [o + n - 1, o + 24]
    for b in sorted(set(m for m in mids if 0 < m < len(d) and m not in bounds))[: (4 if ctx.thorough else 2)]:
        hs.append(('truncate-mid-message', d[:b]))
    # fewer than 24 bytes left (size - 24 is negative: unsigned arithmetic must not wrap), and data cut below / just after
    # the last indexed offset while the index file itself is cut
    tiny = [1, 12, 23] if ctx.thorough else [[1, 23, 12, 22][k % 4]]
    for b in tiny:
        if b < len(d):
            hs.append(('truncate-to-under-24-bytes', d[:b]))
    if 0 <= j < len(frames):
        o = frames[j][0]
        for b in (o - 1, o + 10):
            if 23 < b < len(d) and (ctx.thorough or (k + b) % 2 == 0):
                hs.append(('truncate-around-last-indexed-offset', d[:b]))
    return hs


def run(ctx):
    gen_fe.generate()
    consts = gen_c09.generate()
    ctx.notes.append('generated index-file constants: %r' % consts)
    if not ctx.coq():
        ctx.broken_proof()
    elif ctx.thorough and not ctx.coqchk():
        ctx.broken_proof('coqchk rejected the compiled development')
    model = build_model()
    templates = c18.get_templates()
    g = c18.Gen(ctx.rng, templates)
    g.appended = g.piece('msg-timed')
    g.junk_head = b'\xd3junk-'
    g.resized = c18.fe(60005, bytes(range(37)), 99)
    logs = load_corpus() + make_logs(ctx, g)
    datas = [c18.file_of(p) for p in logs]

    # ---- distinct data files, their SPEC frames and P1 tables -----------------------------------------
    frames0 = [frames_of(l) for l in vf.run_parallel(model, ['F ' + c18.hx(d) for d in datas])]
    plan = []          # (log index, k, history name, data bytes, p1i hex|None, ignore, threads)
    fulls = []
    distinct = {}
    for li, (d, fr) in enumerate(zip(datas, frames0)):
        distinct.setdefault(d, None)
    # full saved index per log by the model (needs the P1 table of d): two passes
    p1tabs = p1_tables(ctx, model, list(distinct))
    for li, (d, fr) in enumerate(zip(datas, frames0)):
        o = parse_o(vf.run_lines(model, ['O cur none %s 0 %s' % (c18.hx(d), tab(p1tabs[d]))])[1][0])
        fulls.append(o['p1i'])
    for li, (d, fr) in enumerate(zip(datas, frames0)):
        full = fulls[li]
        if full is None:
            # a log without messages has no index file; only stale leftovers can exist
            plan.append((li, 0, 'same', d, None, False, 1, True))
            continue
        nb = len(full) // 2
        has_marker = fr and struct.unpack_from('<H', d, fr[-1][0] + 10)[0] != 0
        for k in range(nb + 1):
            p1i = full[:2 * k]
            for name, dd in histories(ctx, g, d, fr, k, nb // REC, None):
                plan.append((li, k, name, dd, p1i, False, None if (k + len(dd)) % 11 == 0 else 1, True))
            if k in (0, REC, nb - 1, nb):
                for name, dd in [('same', d), ('truncate-to-0', b''), ('append-junk', d + b'\x00junk.')]:
                    plan.append((li, k, name, dd, p1i, True, 1, True))
        # replaced by a different file: with the complete index (marker) a different size must be rejected (SPEC applies);
        # with the index cut at a record boundary the loader cannot tell in general (outside the statement): those
        # cases are compared with the MODEL only
        reps = replacements(g, logs[li], [logs[(li + 1) % len(logs)], logs[(li + 2) % len(logs)]])
        for name, dd in reps:
            if len(dd) != len(d):
                plan.append((li, nb, name, dd, full, False, 1, bool(has_marker)))
                for k in ([nb - REC] if not ctx.thorough else range(REC, nb, REC)):
                    if k > 0:
                        plan.append((li, k, name, dd, full[:2 * k], False, 1, False))
        plan.append((li, 0, 'no-index-file', d, None, False, None, True))
    more = sorted(set(p[3] for p in plan) - set(distinct))
    p1tabs.update(p1_tables(ctx, model, more))
    ctx.log('%d logs, %d open histories, %d distinct data files' % (len(logs), len(plan), len(p1tabs)))

    # ---- IMPL, MODEL (current and pre-repair loader), SPEC ---------------------------------------------
    recs = [{'id': str(i), 'data': p[3].hex(), 'p1i': p[4], 'ignore': p[5], 'threads': p[6], 'name': NAMES[i % len(NAMES)]} for i, p in enumerate(plan)]
    impl = run_impl(ctx, 'open', recs)
    ctx.log('IMPL done')
    lines = ['O cur %s %s %d %s' % ('none' if p[4] is None else (p[4] or '-'), c18.hx(p[3]), 1 if p[5] else 0, tab(p1tabs[p[3]])) for p in plan]
    mo = [parse_o(l) for l in vf.run_parallel(model, lines)]
    spec_frames = {d: frames_of(l) for d, l in zip(p1tabs, vf.run_parallel(model, ['F ' + c18.hx(d) for d in p1tabs]))}
    spec_p1i = {}
    for d, l in zip(p1tabs, vf.run_parallel(model, ['O cur none %s 1 %s' % (c18.hx(d), tab(p1tabs[d])) for d in p1tabs])):
        spec_p1i[d] = parse_o(l)['p1i']
    ctx.log('MODEL/SPEC done')
    seen = set()
    for i, p in enumerate(plan):
        li, k, name, dd, p1i, ig, th, spec_applies = p
        fname = NAMES[i % len(NAMES)]
        r = impl[str(i)]
        if 'harness_error' in r:
            raise RuntimeError('c09 harness error: %s\n%s' % (r['harness_error'], r.get('tb')))
        m = mo[i]
        want = spec_frames[dd]
        kind = classify_index(p1i, fulls[li])
        sig0 = {'history': name.split('-')[0] if name.startswith('replaced') else name, 'index': kind, 'ignore_index': ig, 'data_empty': len(dd) == 0, 'data_has_messages': bool(want)}
        case = {'log_pieces': [kk for kk, _ in logs[li]], 'data_hex': dd.hex(), 'p1i_hex': p1i, 'index_cut_at': k, 'full_index_hex': fulls[li],
                'history': name, 'ignore_index': ig, 'num_threads': th, 'file_name': fname, 'spec_applies': spec_applies, 'impl': r, 'model': m, 'spec': {'msgs': want, 'p1i_after': spec_p1i[dd]}}
        ctx.case(hashlib.sha1(repr((dd, p1i, ig)).encode()).hexdigest()[:16])
        ctx.count('history:' + name); ctx.count('index:' + kind); ctx.count('name:' + ('*.p1log' if fname.endswith('.p1log') else fname))
        ctx.count('model-load:' + (m.get('load', 'crash').split(':')[0] if not m.get('crash') else 'crash'))
        bad = None
        f1, f2 = r['first'], r['second']
        if 'exc' in f1 or 'exc' in f2:
            e = f1 if 'exc' in f1 else f2
            bad = (dict(sig0, obs='exception', exc=e['exc']), 'opening the log raised %s: %s' % (e['exc'], e['msg']))
        elif not spec_applies:
            # outside the statement (cut index next to a replaced file): the implementation is only held to the model
            if m.get('crash') or f1['msgs'] != m['msgs'] or f1['p1i'] != m['p1i']:
                ctx.broken_correspondence('open model differs from the implementation on a replaced data file (history %s, index cut at %d)' % (name, k), case)
            ctx.count('outcome:model-only')
            continue
        elif f1['msgs'] != want or not f1['bytes_ok']:
            bad = (dict(sig0, obs='messages'), 'reading through the index returns %d messages %r, reading the data afresh %d messages %r'
                   % (len(f1['msgs']), f1['msgs'][:6], len(want), want[:6]))
        elif f2['msgs'] != want or not f2['bytes_ok']:
            bad = (dict(sig0, obs='messages-reopen'), 're-opening returns %r, a fresh read %r' % (f2['msgs'][:6], want[:6]))
        elif not r['data_unchanged']:
            bad = (dict(sig0, obs='data-modified'), 'opening the log modified the data file')
        else:
            # content of the .p1i afterwards: either the index a fresh indexing saves, or (accepted as it was) an index
            # that the loader accepts for this data file again with the same result - checked by the re-open above.
            # A file that is *not* acceptable for the data must not be left behind.
            after = f2['p1i']
            if after is not None and after != spec_p1i[dd]:
                chk = parse_o(vf.run_lines(model, ['O cur %s %s 0 %s' % (after or '-', c18.hx(dd), tab(p1tabs[dd]))])[1][0])
                if chk.get('crash') or not chk['load'].startswith('accept') or chk['msgs'] != want:
                    bad = (dict(sig0, obs='p1i-after'), 'after opening, the .p1i (%d bytes) is neither the fresh index (%s) nor an index that loads to the fresh message list'
                           % (len(after) // 2, 'none' if spec_p1i[dd] is None else '%d bytes' % (len(spec_p1i[dd]) // 2)))
        if bad:
            key = json.dumps(bad[0], sort_keys=True)
            if key not in seen:
                seen.add(key)
                ctx.violation(bad[0], bad[1], case)
            ctx.count('outcome:violation:' + bad[0]['obs'])
        else:
            ctx.count('outcome:ok')
            mm = {'msgs': m.get('msgs'), 'p1i': m.get('p1i')}
            if m.get('crash') or f1['msgs'] != m['msgs'] or f1['p1i'] != m['p1i']:
                ctx.broken_correspondence('open model differs from the implementation (history %s, index %s cut at %d): model %r, implementation msgs %r p1i %s'
                                          % (name, kind, k, m if m.get('crash') else (m['load'], m['msgs'][:4], m['p1i'] and len(m['p1i']) // 2), f1['msgs'][:4], f1['p1i'] and len(f1['p1i']) // 2), case)
    nh = in_process_histories(ctx, model, g, logs, datas, frames0, fulls)
    ctx.log('%d in-process histories done' % nh)
    for p in plan[:: max(1, len(plan) // 4)][:4]:
        ctx.sample({'log': [kk for kk, _ in logs[p[0]]], 'index_cut_at': p[1], 'history': p[2], 'ignore_index': p[5]})
    ctx.coverage['rule'] = ('%d logs (6 fixed shapes + corpus, thorough: + 38 random; junk between/after messages, type-0 messages in the middle and last, single message, cut tail); the saved index of each log cut at EVERY '
                            'byte length 0..len (exhaustive); after each cut the data-file histories: unchanged, message appended, junk appended, truncated to 0, truncated to %s, '
                            'truncated inside a message; REPLACED by a different file of different size (first two messages swapped, messages reversed, junk stripped / prepended / appended, first / last message resized, '
                            'tail junk stripped after each, two other logs) next to the complete index (SPEC applies) and next to the index cut at a record boundary (model only); data files named '
                            'log.p1log, capture.bin, capture.raw, session (no extension), session.5.log, input.p1log in rotation; opened with MixedLogReader (ignore_index False; True for 4 cut lengths), read to the end, '
                            'then re-opened; num_threads=1 except every ~11th case (default pool). Compared: message offsets/lengths/bytes, exception, .p1i afterwards. '
                            'In addition whole histories inside ONE interpreter and directory: index (complete / marker cut / one record) on disk, open, then data modified (message appended, junk+message appended, cut to a boundary, cut inside a message, restored, emptied; two orders) with a re-open after each change while the index file is left alone unless the library rewrites it; and on logs spanning two 80 KiB indexer blocks: first open with max_bytes (1000, 50000, 81919, 81920, 83000, size-1, size, size+5), then unlimited, limited, unlimited; unlimited then limited with ignore_index then unlimited; GROW histories with the old end of file just before / at / 50 bytes after the 80 KiB block boundary, at the end of the message crossing it, 3000 bytes after it, and the new end at the end of that message, < 16 KiB after the boundary (message boundary and raw), just below / above boundary + 16 KiB and the full log, each followed by an open and a second open through the saved index; on the small logs the library re-indexes (ignore_index) over a longer and over a shorter existing .p1i, followed by regrow-with-other-content / shrink and further opens; the .p1i bytes the library writes are compared with the saved form of the fresh index. A case is distinct by (data file, index bytes, ignore_index).' % (len(logs), 'every message boundary' if ctx.thorough else 'the end/start of the last indexed message and one random boundary'))
    ctx.coverage['exhaustive'] = False
    ctx.coverage['exhaustive_scope'] = 'truncation lengths of the index file: all 0..len; data histories and logs: the listed / generated sets (not exhaustive)'
    ctx.trusted_base += ['Coq 8.16.1 kernel + vm_compute', 'extraction (ExtrOcamlBasic only), ocaml/conv.ml + c09_driver.ml',
                         'np.fromfile (whole records, partial tail ignored), ndarray.tofile, structured casts: modelled as little-endian u4/u2/u8 records',
                         'fast_generate_index regeneration = index of the sequential scan: C08 theorem composed in Proofs/SystemLinkP.v (C09_fresh_is_fast_index, C09_open_via_fast_index) under the 16 KiB precondition; P1 times from the payload classes are a parameter (values taken from the library in the run)',
                         'hand transcription of FileIndex.load/save/_to_raw/_from_raw, fast_generate_index open path, MixedLogReader._read_next, held by correspondence',
                         'file system: no atomicity of the index write is assumed (every prefix of the saved file is a possible crash state)',
                         'translators/gen_fe.py, translators/gen_c09.py', 'harness/py/c09_impl.py, generators in props/c09.py and props/c18.py']
    ctx.notes.append('checklist audit: index cut inside its first record x data cut below / just after the last indexed offset and to 1..23 bytes; type-0 message in the middle read through the saved index; '
                     'shrink to 10 / 23 bytes - re-open - regrow to the indexed size (same and other content); max_bytes through an existing complete index in both orders (small and multi-block logs); '
                     'two readers alive at once; save_index=False; show_progress / warn_on_gaps; get_index() compared with the fresh index; a message of several KiB. '
                     'Not exercised: a read-only directory for the .p1i (the checks run as root, permissions are not enforced; the property text does not promise an open without write access).')
    ctx.assumptions += ['the data file changes by append / truncate / replacement by a file of different size; replacement by an unrelated file of the SAME size is outside the statement',
                        'offsets < 2^64, types < 2^16 (file bytes are bytes)', 'accepted messages <= 16 KiB (C08 precondition)']


def tab(t):
    # frames that are not listed have no P1 time in the driver
    return ','.join('%s=%s' % (h, v) for h, v in t.items() if v is not None) or '-'


def big_log(g, rng):
    """a log that spans more than one 80 KiB indexer block: ~1 KiB messages back to back with a little junk, messages
    straddling the block boundary (few scan positions, so the extracted model stays fast)"""
    out = []
    n = 0
    i = 0
    while n < 81920 + 21000:
        k = 'msg-timed' if i % 9 == 4 else 'msg-unknown'
        m = g.piece('msg-timed') if k == 'msg-timed' else c18.fe(60020 + i % 3, bytes((i * 7 + j) & 0xFF for j in range(700 + (i * 131) % 600)), 1000 + i)
        out.append([k, m.hex()])
        n += len(m)
        i += 1
        if i % 25 == 0:
            out.append(['junk', b'\x00.junk'.hex()]); n += 6
    return out


def in_process_histories(ctx, model, g, logs, datas, frames0, fulls):
    """whole histories inside one interpreter (the index file is left untouched between opens unless the library itself
    rewrites it): open - modify data - re-open - ..., and byte-limited opens on a multi-block log."""
    hist = []     # (description, name, steps)
    for li, (d, fr, full) in enumerate(zip(datas, frames0, fulls)):
        if full is None or not fr:
            continue
        nb = len(full) // 2
        ends = [o + n for o, n in fr]
        cutb = ends[len(ends) // 2 - 1] if len(ends) > 1 else fr[0][0]
        mods = [('appended-message', d + g.appended), ('appended-junk-and-message', d + g.appended + b'\x00junk.' + g.appended),
                ('cut-to-boundary', d[:cutb]), ('cut-mid-message', d[:max(1, ends[-1] - 3)]), ('restored', d), ('emptied', b''),
                ('shrunk-to-10-bytes', d[:10]), ('regrown-to-the-indexed-size', d), ('shrunk-to-23-bytes', d[:23]),
                ('regrown-to-the-indexed-size-other-content', bytes(b ^ 0x5A for b in d))]
        ks = [nb, nb - REC] + ([REC] if nb > 2 * REC else [])
        for k in ks:
            for variant in range(2 if ctx.thorough or li < 3 else 1):
                steps = [{'op': 'data', 'hex': d.hex()}, {'op': 'p1i', 'hex': full[:2 * k]}]
                order = mods if variant == 0 else [mods[2], mods[4], mods[0], mods[5], mods[1], mods[3], mods[8], mods[7], mods[6], mods[4]]
                steps.append({'op': 'open', 'threads': 1, 'what': 'first open'})
                if variant == 0:
                    # a byte limit next to an existing index still applies; two readers alive at once; flags that must not matter
                    steps.append({'op': 'open', 'threads': 1, 'max_bytes': ends[0] + (5 if len(ends) > 1 else 0), 'what': 'limited open through the existing index'})
                    steps.append({'op': 'open2', 'threads': 1, 'what': 'two readers alive at once'})
                    steps.append({'op': 'open', 'threads': 1, 'opts': {'show_progress': True, 'warn_on_gaps': True}, 'what': 'open with show_progress and warn_on_gaps'})
                for nm, dd in order:
                    steps.append({'op': 'data', 'hex': dd.hex()})
                    steps.append({'op': 'open', 'threads': 1, 'what': nm})
                    if nm in ('cut-to-boundary', 'appended-message'):
                        steps.append({'op': 'open', 'threads': 1, 'what': nm + ', opened again'})
                if variant == 1:
                    # no index file, save_index=False: nothing may be written; then a normal open; then two readers on the fresh index
                    steps += [{'op': 'data', 'hex': d.hex()}, {'op': 'p1i', 'hex': None},
                              {'op': 'open', 'threads': 1, 'opts': {'save_index': False}, 'what': 'open with save_index=False, no index file'},
                              {'op': 'open2', 'threads': None, 'what': 'two readers alive at once, no index file'},
                              {'op': 'open', 'threads': 1, 'opts': {'save_index': False}, 'what': 'open with save_index=False next to a saved index'}]
                hist.append(('log %d, index cut at %d, order %d' % (li, k, variant), NAMES[(li + k) % len(NAMES)], steps, d))
    # the library REWRITES an index over an existing longer / shorter one (ignore_index=True), then the data changes again
    for li, (d, fr, full) in enumerate(zip(datas, frames0, fulls)):
        if full is None or len(fr) < 2:
            continue
        (oa, na), (ob, nb2) = fr[-2], fr[-1]
        swapped = d[:oa] + d[ob:ob + nb2] + d[oa + na:ob] + d[oa:oa + na] + d[ob + nb2:]      # same size, last two messages swapped
        first_end = fr[0][0] + fr[0][1]
        longer = d + g.appended + b'\x00junk.' + g.appended
        for nm, seq in [('shrink, re-index over the longer index, regrow to the old size with other content',
                         [(d[:first_end], True, 'data shrunk to its first message, ignore_index (rewrites a shorter index over the old one)'),
                          (swapped, False, 'data regrown to the old size, last two messages swapped'), (swapped, False, 'opened again'),
                          (d, False, 'original data restored')]),
                        ('grow, re-index over the shorter index, shrink back',
                         [(longer, True, 'data grown, ignore_index (rewrites a longer index over the old one)'),
                          (d, False, 'data cut back to the old size'), (d[:first_end], True, 'shrunk, ignore_index again'),
                          (longer, False, 'grown again')])]:
            steps = [{'op': 'data', 'hex': d.hex()}, {'op': 'p1i', 'hex': full}, {'op': 'open', 'threads': 1, 'what': 'first open'}]
            for dd, ig, what in seq:
                steps.append({'op': 'data', 'hex': dd.hex()})
                steps.append({'op': 'open', 'threads': 1, 'ignore': ig, 'what': what})
            hist.append(('log %d: %s' % (li, nm), NAMES[(li + 1) % len(NAMES)], steps, d))
    # byte-limited opens on multi-block logs
    for bi in range(3 if ctx.thorough else 1):
        big_pieces = big_log(g, ctx.rng)
        big = c18.file_of(big_pieces)
        size = len(big)
        # ---- the log GROWS between opens, old and new end of file placed around the 80 KiB block boundary -------------
        bounds, pos = [], 0
        for kk, hh in big_pieces:
            pos += len(hh) // 2
            if is_msg(kk):
                bounds.append(pos)                      # ends of messages
        BLK, OVL = 81920, 16384
        below = lambda x: max([b for b in bounds if b <= x] or [bounds[0]])
        above = lambda x: min([b for b in bounds if b >= x] or [bounds[-1]])
        straddle_end = above(BLK)                       # end of the message that crosses (or ends at) the boundary
        olds = [below(BLK - 1), BLK, BLK + 50, straddle_end, above(BLK + 3000)]
        news = [straddle_end, below(BLK + 5000), BLK + 5000, below(BLK + OVL - 1), above(BLK + OVL), size]
        pairs = [(o, n) for o in olds for n in news if n > o]
        if not ctx.thorough:
            pairs = [pairs[i] for i in sorted(set(ctx.rng.sample(range(len(pairs)), 6)) | {next(i for i, (o, n) in enumerate(pairs) if o == BLK + 50 and n == below(BLK + 5000))})]
        for o, n in pairs:
            steps = [{'op': 'data', 'hex': big[:o].hex()}, {'op': 'p1i', 'hex': None},
                     {'op': 'open', 'threads': 1, 'what': 'first open, %d bytes' % o},
                     {'op': 'data', 'hex': big[:n].hex()},
                     {'op': 'open', 'threads': 1 if (o + n) % 2 else None, 'what': 'open after the log grew to %d bytes' % n},
                     {'op': 'open', 'threads': 1, 'what': 'second open through the saved index'}]
            if ctx.thorough:
                grown = big[:o] + b'\x00junk.1' + big[straddle_end:n]
                steps += [{'op': 'data', 'hex': big[:o].hex()}, {'op': 'open', 'threads': 1, 'what': 'cut back to %d bytes' % o},
                          {'op': 'data', 'hex': grown.hex()}, {'op': 'open', 'threads': 1, 'what': 'junk and messages appended'}]
            hist.append(('multi-block log %d grows from %d to %d bytes (80 KiB boundary at %d)' % (bi, o, n, BLK), 'rec.p1log' if n % 2 else 'rec.bin', steps, None))
        limits = [1000, 50000, 81919, 81920, 83000, size - 1, size, size + 5] if bi == 0 else [ctx.rng.randrange(24, size) for _ in range(4)]
        for N in limits:
            steps = [{'op': 'data', 'hex': big.hex()}, {'op': 'p1i', 'hex': None},
                     {'op': 'open', 'threads': 1 if N % 2 else None, 'max_bytes': N, 'what': 'first open with max_bytes=%d' % N},
                     {'op': 'open', 'threads': 1, 'what': 'unlimited open after a limited one'},
                     {'op': 'open', 'threads': 1, 'max_bytes': N, 'what': 'limited open next to a complete index'},
                     {'op': 'open', 'threads': 1, 'what': 'unlimited open again'}]
            hist.append(('multi-block log %d (%d bytes), max_bytes=%d first' % (bi, size, N), 'big.p1log' if N % 3 else 'big.bin', steps, big))
        for N in limits[1:4]:
            steps = [{'op': 'data', 'hex': big.hex()}, {'op': 'p1i', 'hex': None},
                     {'op': 'open', 'threads': 1, 'what': 'unlimited first open'},
                     {'op': 'open', 'threads': 1, 'max_bytes': N, 'what': 'limited open through the complete index'},
                     {'op': 'open', 'threads': 1, 'max_bytes': N, 'ignore': True, 'what': 'limited open with ignore_index'},
                     {'op': 'open', 'threads': 1, 'what': 'unlimited open after limited ignore_index open'}]
            hist.append(('multi-block log %d, unlimited then max_bytes=%d with ignore_index' % (bi, N), 'big.raw', steps, big))
    recs = [{'id': str(i), 'name': h[1], 'steps': [{k: v for k, v in st.items() if k != 'what'} for st in h[2]]} for i, h in enumerate(hist)]
    impl = run_impl(ctx, 'hist', recs)
    ctx.log('in-process histories: IMPL done')
    # distinct data files -> SPEC frames and P1 tables
    dset = []
    for h in hist:
        for st in h[2]:
            if st['op'] == 'data':
                b = bytes.fromhex(st['hex'])
                if b not in dset:
                    dset.append(b)
    tabs = p1_tables(ctx, model, dset)
    spec_fr = {b: frames_of(l) for b, l in zip(dset, vf.run_parallel(model, ['F ' + c18.hx(b) for b in dset]))}
    spec_entries, spec_saved = {}, {}     # records of the fresh index without the EOF marker / the saved bytes, per data file
    for b, l in zip(dset, vf.run_parallel(model, ['O cur none %s 1 %s' % (c18.hx(b), tab(tabs[b])) for b in dset])):
        sp = parse_o(l)['p1i'] or ''
        fr_b = spec_fr[b]
        marker = bool(fr_b) and struct.unpack_from('<H', b, fr_b[-1][0] + 10)[0] != 0
        spec_entries[b] = sp[:-28] if marker else sp
        spec_saved[b] = sp
    lines, meta = [], []
    for i, h in enumerate(hist):
        r = impl[str(i)]
        if 'harness_error' in r:
            raise RuntimeError('c09 hist harness error: %s\n%s' % (r['harness_error'], r.get('tb')))
        cur, oi = b'', 0
        base = None
        for st in h[2]:
            if st['op'] == 'data':
                cur = bytes.fromhex(st['hex'])
            elif st['op'] == 'p1i':
                base = h[3] if st['hex'] is not None else None
            else:
                o = r['opens'][oi]; oi += 1
                bp = o['before_p1i']
                lines.append('O cur %s %s %d %s%s' % ('none' if bp is None else (bp or '-'), c18.hx(cur), 1 if st.get('ignore') else 0, tab(tabs[cur]),
                                                       '' if st.get('max_bytes') is None else ' %d' % st['max_bytes']))
                applies = bp is None or st.get('ignore') or (base is not None and (cur.startswith(base) or base.startswith(cur)))
                if st['op'] == 'p1i' or st['op'] == 'data':
                    pass
                meta.append((i, st, cur, o, applies))
                if o.get('p1i') != bp:
                    base = cur if o.get('p1i') is not None else None
    ctx.log('in-process histories: tables / SPEC done (%d model lines)' % len(lines))
    # identical model questions are asked once; the slow ones (multi-block logs) sit together at the end, so the lines are
    # dealt round-robin over the runner shards
    uniq = list(dict.fromkeys(lines))
    k = vf.NCPU
    order = sorted(range(len(uniq)), key=lambda x: (x % k, x))
    outl = vf.run_parallel(model, [uniq[x] for x in order])
    ans = {uniq[x]: outl[pos] for pos, x in enumerate(order)}
    back = [ans[l] for l in lines]
    mo = [parse_o(l) for l in back]
    ctx.log('in-process histories: MODEL done')
    seen = set()
    for (i, st, cur, o, applies), m in zip(meta, mo):
        h = hist[i]
        N = st.get('max_bytes')
        want = spec_fr[cur]
        if N is not None and N < len(cur):
            w2 = []
            for a, n in want:
                if a + n > N:
                    break
                w2.append([a, n])
            want = w2
        ctx.case(('hist', i, st['what'])); ctx.count('in-process-history:' + ('max_bytes' if N is not None else 'two-readers' if st['op'] == 'open2' else 'save_index=False' if (st.get('opts') or {}).get('save_index') is False else 'reopen'))
        case = {'history': h[0], 'file_name': h[1], 'step': st['what'], 'steps': [dict(x, hex=(x['hex'] if x.get('hex') is None or len(x['hex']) < 4000 else x['hex'][:64] + '...(%d bytes)' % (len(x['hex']) // 2))) if 'hex' in x else x for x in h[2]],
                'impl': {k: (v if k != 'msgs' else v[:12]) for k, v in o.items() if k != 'tb'}, 'model': {k: (v if k != 'msgs' else v[:12]) for k, v in m.items()},
                'spec_msgs': want[:12], 'spec_count': len(want), 'spec_applies': applies,
                'replay_steps': [{k: v for k, v in x.items()} for x in h[2]]}
        sig = {'obs': None, 'history': 'in-process', 'step': ('max_bytes' if N is not None else st['what'].split(',')[0]), 'ignore_index': bool(st.get('ignore'))}
        bad = None
        if 'exc' in o:
            bad = (dict(sig, obs='exception', exc=o['exc']), 'history [%s], %s: opening raised %s: %s' % (h[0], st['what'], o['exc'], o['msg']))
        elif applies and (o['msgs'] != want or not o['bytes_ok']):
            bad = (dict(sig, obs='messages'), 'history [%s], %s: the reader returns %d messages, a fresh read of the current data %d%s'
                   % (h[0], st['what'], len(o['msgs']), len(want), '' if N is None else ' (within max_bytes=%d)' % N))
        elif st['op'] == 'open2' and applies and o.get('msgs_b') != want:
            bad = (dict(sig, obs='messages'), 'history [%s], %s: the second of two live readers returns %d messages, a fresh read %d' % (h[0], st['what'], len(o['msgs_b']), len(want)))
        elif not o['data_unchanged']:
            bad = (dict(sig, obs='data-modified'), 'opening the log modified the data file')
        elif applies and (N is None or N >= len(cur)) and isinstance(o.get('index'), str) and not o['index'].startswith('unavailable') \
                and o['index'] != spec_entries[cur]:
            bad = (dict(sig, obs='get_index'), 'history [%s], %s: get_index() holds %d entries that are not the fresh index (%d entries) of the current data'
                   % (h[0], st['what'], len(o['index']) // 28, len(spec_entries[cur]) // 28))
        elif applies and o.get('p1i') is not None and o['p1i'] != o['before_p1i'] and o['p1i'] != spec_saved[cur]:
            bad = (dict(sig, obs='p1i-after'), 'history [%s], %s: the library wrote a .p1i of %d bytes that is not the saved form of the fresh index (%s)'
                   % (h[0], st['what'], len(o['p1i']) // 2, 'none' if not spec_saved[cur] else '%d bytes' % (len(spec_saved[cur]) // 2)))
        if not bad and (st.get('opts') or {}).get('save_index') is False and not m.get('crash'):
            # nothing is saved: the model's message list stands, the index file is as before unless a stale one was deleted
            m = dict(m, p1i=(None if m['load'] == 'rebuild:1' else o['before_p1i']))
        if bad:
            key = json.dumps(bad[0], sort_keys=True)
            if key not in seen:
                seen.add(key)
                ctx.violation(bad[0], bad[1], case)
            ctx.count('outcome:violation:' + bad[0]['obs'])
        elif m.get('crash') or o['msgs'] != m['msgs'] or o['p1i'] != m['p1i']:
            ctx.broken_correspondence('in-process history [%s], %s: model and implementation differ (msgs equal: %s, .p1i equal: %s)'
                                      % (h[0], st['what'], (not m.get('crash')) and o['msgs'] == m['msgs'], (not m.get('crash')) and o['p1i'] == m['p1i']), case)
        else:
            ctx.count('outcome:ok')
    return len(hist)


def p1_tables(ctx, model, datas):
    if not datas:
        return {}
    fr = [frames_of(l) for l in vf.run_parallel(model, ['F ' + c18.hx(d) for d in datas])]
    res = run_impl(ctx, 'p1', [{'id': str(i), 'hex': d.hex(), 'frames': f} for i, (d, f) in enumerate(zip(datas, fr))])
    out = {}
    for i, d in enumerate(datas):
        r = res[str(i)]
        if 'harness_error' in r:
            raise RuntimeError('c09 p1 harness error: ' + r['harness_error'])
        out[d] = {h: t for h, t in r['p1']}
    return out


def load_corpus():
    out = []
    if os.path.isdir(CORPUS):
        for fn in sorted(os.listdir(CORPUS)):
            if fn.endswith('.json'):
                out.append(json.load(open(os.path.join(CORPUS, fn)))['pieces'])
    return out


def replay(ctx, rec):
    case = rec.get('case', rec)
    gen_fe.generate(); gen_c09.generate()
    model = build_model()
    if 'replay_steps' in case:
        steps = case['replay_steps']
        r = run_impl(ctx, 'hist', [{'id': '0', 'name': case.get('file_name', 'log.p1log'), 'steps': [{k: v for k, v in st.items() if k != 'what'} for st in steps]}])['0']
        cur, oi, bad = b'', 0, 0
        for st in steps:
            if st['op'] == 'data':
                cur = bytes.fromhex(st['hex'])
            elif st['op'] == 'open':
                o = r['opens'][oi]; oi += 1
                want = frames_of(vf.run_lines(model, ['F ' + c18.hx(cur)])[1][0])
                N = st.get('max_bytes')
                if N is not None and N < len(cur):
                    w2 = []
                    for a, n in want:
                        if a + n > N:
                            break
                        w2.append([a, n])
                    want = w2
                ok = 'exc' not in o and o['msgs'] == want
                bad += not ok
                print('%-50s IMPL %s | SPEC %d messages | %s' % (st.get('what'), o.get('exc') or '%d messages' % len(o['msgs']), len(want), 'ok' if ok else 'DIFFERS'))
        return 1 if bad else 0
    d = bytes.fromhex(case['data_hex'])
    p1i = case['p1i_hex']
    t = p1_tables(ctx, model, [d])[d]
    r = run_impl(ctx, 'open', [{'id': '0', 'data': d.hex(), 'p1i': p1i, 'ignore': case['ignore_index'], 'threads': case.get('num_threads'), 'name': case.get('file_name', 'log.p1log')}])['0']
    args = ('none' if p1i is None else (p1i or '-'), c18.hx(d), 1 if case['ignore_index'] else 0, tab(t))
    print('data %d bytes, index %s bytes, history %s, ignore_index=%s' % (len(d), 'no' if p1i is None else len(p1i) // 2, case.get('history'), case['ignore_index']))
    print('IMPL        ', json.dumps({k: r[k] for k in ('first', 'second')})[:1200])
    print('MODEL       ', vf.run_lines(model, ['O cur %s %s %d %s' % args])[1][0][:600])
    print('MODEL-legacy', vf.run_lines(model, ['O legacy %s %s %d %s' % args])[1][0][:600])
    print('SPEC  msgs  ', vf.run_lines(model, ['F ' + c18.hx(d)])[1][0][:600])
    want = frames_of(vf.run_lines(model, ['F ' + c18.hx(d)])[1][0])
    ok = all('exc' not in r[x] and r[x]['msgs'] == want for x in ('first', 'second'))
    return 0 if ok else 1
