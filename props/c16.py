"""C16 — Numeric array conversion faithfully mirrors message fields."""
import itertools, json, os
import vf
from translators import gen_c16

LEVEL = 'proof'
HARNESS = [vf.PY, os.path.join(vf.VERIF, 'harness/py/c16_impl.py')]


def harness(lines):
    out = vf.run_parallel(HARNESS, lines, env=vf.IMPL_ENV)
    return [json.loads(o) for o in out]


def shape_word(shape):
    if len(shape) == 0:
        return '0'
    if len(shape) == 1:
        return '1:%d' % shape[0]
    if len(shape) == 2:
        return '2:%dx%d' % tuple(shape)
    return 'H:' + 'x'.join(str(x) for x in shape)


def axis_word(info):
    ax, nd = info.get('axis'), len(info['raw_shape'])
    if ax is None or info.get('ntd'):
        return 'NONE'
    if nd == 1:
        return '1D'
    if nd == 2:
        return 'COLS' if ax == 1 else 'ROWS'
    return 'FIRST' if ax == 0 else 'NONE'


def model_lines(arrays):
    keys = [k for k in arrays if not k.startswith('__')]
    mask = ''.join('1' if b else '0' for b in arrays['__mask__']) or '-'
    ntd = ','.join(arrays['__ntd__']) or '-'
    r = ' '.join(['R', mask, ntd] + ['%s=%s' % (k, shape_word(arrays[k]['raw_shape'])) for k in keys])
    s = ' '.join(['S', mask, ntd] + ['%s=%s@%s' % (k, shape_word(arrays[k]['raw_shape']), axis_word(arrays[k])) for k in keys])
    return keys, r, s


def apply_ids(word, info):
    """'key=kind:shape:ids' -> (shape, values) using the raw cells"""
    _, _, rest = word.partition('=')
    kind, shape, ids = rest.split(':')
    raw, rs = info['raw'], info['raw_shape']
    ids = [int(x) for x in ids.split(',')] if ids else []
    if kind == '0':
        return rs, raw
    if kind == 'H':
        block = 1
        for d in rs[1:]:
            block *= d
        vals = [raw[i * block + j] for i in ids for j in range(block)]
    else:
        vals = [raw[i] for i in ids]
    return [int(x) for x in shape.split('x')] if shape else [], vals


def run(ctx):
    try:
        table = gen_c16.generate()
        translator_ok = True
        ctx.obligation('translator gen_c16 understood the source', True, 'translator')
    except Exception as e:
        # a translator failure is a failed obligation; the dynamic comparison (which does not need the table) still runs
        table = {'classes': [], 'generic_base': 'MessagePayload', 'inherits': {}, 'unanalysed': {'*': repr(e)[:300]}}
        translator_ok = False
        ctx.obligation('translator gen_c16 understood the source', False, 'translator', repr(e)[:400])
        ctx.broken_proof('translators/gen_c16.py failed: %r' % (e,))
    rows = [(c['cls'], r) for c in table['classes'] for r in c['rows']]
    n_opaque = sum(1 for _, r in rows if r['kind'] == 'Opaque')
    ctx.coverage['table'] = {'classes_with_own_to_numpy': len(table['classes']), 'rows': len(rows), 'opaque_rows_dynamic_only': n_opaque,
                             'inherits': table['inherits'], 'classes_not_analysed_statically': table['unanalysed']}
    kinds = {'same_named_direct': 0, 'same_named_through_details': 0, 'same_named_time_independent': 0, 'same_named_opaque': 0,
             'not_named_like_a_field': 0}
    for _, r in rows:
        if r['key'] not in r['fields']:
            kinds['not_named_like_a_field'] += 1
        elif r['kind'] == 'Opaque':
            kinds['same_named_opaque'] += 1
        elif r['kind'] == 'First':
            kinds['same_named_time_independent'] += 1
        elif r['prefix']:
            kinds['same_named_through_details'] += 1
        else:
            kinds['same_named_direct'] += 1
    ctx.coverage['table']['row_kinds'] = kinds
    for k, why in table['unanalysed'].items():
        ctx.notes.append('to_numpy of %s not understood by the translator (dynamic comparison only): %s' % (k, why))
    if not ctx.coq() and not getattr(ctx, 'pending_broken', None):
        ctx.broken_proof()
    model = vf.build_extracted('c16', 'C16', 'c16_driver.ml', conv=False)
    rc, mo, _ = vf.run_lines(model, ['BAD', 'OPAQUE'])
    bad_rows = [w for w in mo[0].split(' | ')[1:]]
    ctx.coverage['table']['opaque_same_named'] = mo[1].split(' | ')[1:]
    ctx.coverage['table']['rows_violating_same_name_same_source'] = bad_rows

    # ---- the translator's view of the classes against the interpreter's -------------------------------
    listing = harness([json.dumps({'list': 1})])[0]
    if 'error' in listing:
        raise RuntimeError('c16 harness: ' + listing['error'])
    classes = listing['classes']
    tclasses = {c['cls']: c for c in table['classes']}
    for c in classes:
        resolved = c['resolved'].split('.')[0]
        if not translator_ok:
            continue
        if c['own'] and c['name'] not in tclasses:
            raise RuntimeError('class %s defines to_numpy but the translator did not see it' % c['name'])
        if resolved not in tclasses and resolved != table['generic_base']:
            raise RuntimeError('class %s resolves to_numpy to %s, unknown to the translator' % (c['name'], c['resolved']))
        if c['name'] in tclasses and set(tclasses[c['name']]['fields']) != set(c['fields']):
            ctx.broken_correspondence('field list of %s from __init__ (ast) differs from the instance: %r vs %r'
                                      % (c['name'], sorted(tclasses[c['name']]['fields']), c['fields']), {'class': c['name']})
    ctx.count('classes', len(classes))
    ctx.count('classes-generic-path', sum(1 for c in classes if c['resolved'].split('.')[0] == table['generic_base']))

    # ---- cases --------------------------------------------------------------------------------------------
    r = ctx.rng
    N = 12 if ctx.thorough else 4
    reqs = []
    cdir = os.path.join(vf.VERIF, 'corpus', 'C16')
    names = {c['name'] for c in classes}
    if os.path.isdir(cdir):
        for f in sorted(os.listdir(cdir)):
            if f.endswith('.json'):
                q = json.load(open(os.path.join(cdir, f)))
                q = q.get('request', q)
                if q.get('cls') in names:
                    reqs.append(dict(q, origin='corpus'))
    for c in classes:
        resolved = c['resolved'].split('.')[0]
        trow = {row['key']: {'kind': row['kind'], 'path': row['path']} for row in tclasses[resolved]['rows']} if resolved in tclasses else None
        variants = [0, 1] + ([2, 3] if c['has_enum_preprocessing'] else [])
        for n in range(0, N + 1):
            if c['has_p1'] and n > 0:
                if n <= 4:
                    subsets = [list(s) for k in range(n + 1) for s in itertools.combinations(range(n), k)]
                else:
                    subsets = [[], list(range(n)), [0], [n - 1]] + [[i for i in range(n) if r.random() < r.choice([0.2, 0.5, 0.8])] for _ in range(6)]
            else:
                subsets = [[]]
            for nan in subsets:
                for v in variants:
                    if v != 0 and nan not in ([], [0]) and len(nan) != n and r.random() < 0.5:
                        continue
                    reqs.append({'cls': c['name'], 'n': n, 'nan': nan, 'variant': v, 'table': trow, 'origin': 'gen'})
    # long lists (one entry per message must hold beyond toy sizes), with and without invalid P1 times
    for c in classes:
        big = 300 if ctx.thorough else 48
        for nan in ([], [i for i in range(big) if r.random() < 0.3]):
            if nan and not c['has_p1']:
                continue
            reqs.append({'cls': c['name'], 'n': big, 'nan': nan, 'variant': 0, 'table': None, 'origin': 'large'})
    # the same conversions on messages that went through the wire format: pack -> unpack images and what the stream decoder
    # returns (decoded messages hold construct containers where Python-built ones hold numpy arrays)
    for c in classes:
        resolved = c['resolved'].split('.')[0]
        trow = {row['key']: {'kind': row['kind'], 'path': row['path']} for row in tclasses[resolved]['rows']} if resolved in tclasses else None
        for rep in ('unpack', 'decoder'):
            if (rep == 'decoder' and c['name'] == 'MeasurementDetails') or c.get('synthetic'):
                continue
            for n in range(0, N + 1):
                subsets = [[]] if not (c['has_p1'] and n > 0) else ([[], [0], list(range(n))] + [[i for i in range(n) if r.random() < 0.5] for _ in range(2)])
                for nan in subsets:
                    reqs.append({'cls': c['name'], 'n': n, 'nan': nan, 'variant': 0, 'rep': rep, 'table': trow, 'origin': 'wire'})
    # histories on one MessageData: convert, change the message list (same count or not), convert again
    hist = []
    for c in classes:
        if not c['has_p1'] or c['name'] == 'MeasurementDetails' or c.get('synthetic'):
            continue
        for t0 in (1.0, 1000.0, 5000.0, 90000.0, 1.0e6, 1.3e9):
            for op in ('slide', 'slide-add', 'replace-shifted', 'replace-middle', 'append', 'same', 'assign-sublist-keep-ends', 'assign-longer-keep-ends',
                       'slice-assign', 'slice-assign-longer', 'del-middle', 'pop-middle', 'insert-middle', 'extend', 'reverse', 'sort-descending',
                       'align-drop', 'align-insert'):
                for n in ((2, 5) if not ctx.thorough else (1, 2, 3, 5, 9)) if t0 in (1.0, 5000.0, 1.3e9) or ctx.thorough or op in ('slide', 'replace-shifted') else (5,):
                    if n < 3 and op in ('replace-middle', 'assign-sublist-keep-ends', 'slice-assign', 'del-middle', 'pop-middle', 'align-drop'):
                        continue
                    if op.startswith('align') and not c.get('aligned_by_code'):
                        continue
                    dt = r.choice([0.01, 0.1, 1.0])
                    hist.append({'history': {'cls': c['name'], 'n': n, 't0': t0, 'dt': dt, 'shift': r.choice([dt, dt / 2, 0.001]), 'op': op},
                                 'cls': c['name'], 'n': n, 'nan': [], 'variant': 0, 'origin': 'history'})
    reqs += hist
    reqs.sort(key=lambda q: (q['origin'] != 'corpus', q['n'], len(q['nan'])))
    ctx.log('%d cases over %d classes' % (len(reqs), len(classes)))
    res = harness([json.dumps({k: q[k] for k in ('cls', 'n', 'nan', 'variant', 'table', 'rep', 'history') if k in q}) for q in reqs])

    # ---- NaN-removal model / spec on the same shapes -----------------------------------------------------
    mlines, owners = [], []
    for i, (q, d) in enumerate(zip(reqs, res)):
        a = d.get('arrays') or {}
        if '__mask__' in a and not a.get('__dropped__'):
            keys, rl, sl = model_lines(a)
            mlines += [rl, sl]
            owners.append((i, keys))
    mout = vf.run_parallel(model, mlines) if mlines else []

    seen = set()
    for q, d in zip(reqs, res):
        ctx.case((q['cls'], q['n'], tuple(q['nan']), q['variant'], q.get('rep'), json.dumps(q.get('history'), sort_keys=True)))
        ctx.count('origin:' + q['origin'] + (':' + q['rep'] if q.get('rep') else ''))
        if d.get('skipped'):
            ctx.count('wire-skipped:' + d['skipped'].split(':')[0][:60]); continue
        if 'error' in d:
            # no exception may escape a conversion: reported as a failing input, the run goes on
            exc = d['error'].split(':')[0]
            sig = {'class': q['cls'], 'key': '*', 'kind': 'conversion-raises', 'exception': exc}
            ctx.count('issue:conversion-raises')
            if json.dumps(sig, sort_keys=True) not in seen:
                seen.add(json.dumps(sig, sort_keys=True))
                ctx.violation(sig, '%s: converting %d messages%s raises %s' % (q['cls'], q['n'], ' (history)' if q.get('history') else '', d['error'][:200]),
                              {'request': strip(q), 'error': d['error'], 'trace': d.get('trace', '')[-400:]})
            continue
        for k, v in d['stats'].items():
            ctx.count('compared:' + k, v)
        ctx.count('messages:%d' % q['n'])
        if q['nan']:
            ctx.count('with-invalid-p1-times')
        for iss in d['issues']:
            if iss['kind'].startswith('table-'):
                # the translated row does not describe what the code computes: the model side is off
                if not any(j['key'] == iss['key'] and not j['kind'].startswith('table-') for j in d['issues']):
                    ctx.broken_correspondence('generated row %s.%s (%s %s) does not describe the output of to_numpy'
                                              % (q['cls'], iss['key'], iss.get('row_kind'), iss.get('path')), {'request': strip(q), 'issue': iss})
                continue
            sig = {'class': q['cls'], 'key': iss['key'], 'kind': iss['kind']}
            if iss['kind'] == 'nan-removal-inconsistent':
                sig['ndim'] = iss['ndim']
            if iss['kind'] == 'arrays-do-not-describe-the-current-messages':
                sig['op'] = iss['op']; sig['first_last_time_changed'] = iss['first_last_time_changed']; sig['same_count'] = iss['same_count']
            if iss['kind'] == 'output-depends-on-field-container-type':
                sig['representation'] = iss['representation']
            if iss['kind'] in ('repeated-conversion-raises', 'conversion-raises'):
                sig['exception'] = iss['exception']
            ctx.count('issue:' + iss['kind'])
            key = json.dumps(sig, sort_keys=True)
            if key in seen:
                continue
            seen.add(key)
            ctx.violation(sig, describe(q, iss), {'request': strip(q), 'issue': iss})
    for (i, keys), rl, sl in zip(owners, mout[0::2], mout[1::2]):
        q, d = reqs[i], res[i]
        a = d['arrays']
        flagged = {iss['key'] for iss in d['issues'] if iss['kind'].startswith('nan-removal')}
        for k, rw, sw in zip(keys, rl.split(' '), sl.split(' ')):
            info = a[k]
            ctx.count('nan-removal-arrays-compared')
            got = (info['after_shape'], info['after'])
            m_ = apply_ids(rw, info)
            s_ = apply_ids(sw, info)
            if got != tuple(s_) and k not in flagged:
                ctx.broken_correspondence('extracted NaN-removal SPEC and the harness oracle disagree on %s.%s' % (q['cls'], k),
                                          {'request': strip(q), 'key': k, 'impl': got, 'spec': s_})
            elif got == tuple(s_) and got != tuple(m_):
                ctx.broken_correspondence('NaN-removal model and implementation differ on %s.%s (shape %s)' % (q['cls'], k, info['raw_shape']),
                                          {'request': strip(q), 'key': k, 'impl': got, 'model': m_})
    if ctx.hist.get('compared:outputs_sharing_memory_with_a_message_array'):
        ctx.notes.append('advisory (not part of the property): some outputs share memory with a message\'s own array '
                         '(CalibrationStatus returns messages[0].mounting_angle_max_std_dev_deg itself as the time-independent output)')
    for row in bad_rows:
        ctx.notes.append('generated table row violating same_name_same_source / ntd rule: ' + row)
    for q, d in list(zip(reqs, res))[::max(1, len(reqs) // 5)][:5]:
        ctx.sample({'request': strip(q), 'keys': d.get('keys'), 'stats': d.get('stats'), 'issues': d.get('issues')})
    ctx.coverage['rule'] = ('every class of message_type_to_class plus MeasurementDetails (%d; %d through the generic _message_to_numpy path) x message lists of length 0..%d '
                            'x %s subsets of invalid P1 times x enum-choice variants; every numeric leaf of every message (recursively through embedded objects) holds a '
                            'value distinct between messages and between fields, timestamps carry a 9-digit fraction; every integer attribute spans the whole range its wire field accepts (found by packing), top bit and minimum included, mixed with small values in one list and compared exactly as integers. Compared: every output named like a field of the '
                            'message or of its embedded details against the field values (enums as ints, Timestamp as float seconds, NaN = NaN), its time axis found by '
                            'appending one message; declared time-independent outputs against the first message; every non-opaque generated row interpreted on the same '
                            'messages against the output; MessageData.to_numpy(remove_nan_times=True) against the raw arrays with the invalid positions removed along '
                            'the time axis, and against the extracted model and SPEC of the removal. Each class is also converted from the pack->unpack image and from the stream decoder output of its messages (compared with Python-built twins holding the same values), '
                            'on synthetic payload classes with a single scalar / single vector field using the default conversion, on long lists (48 messages quick, 300 thorough), '
                            'given as list and as tuple, twice (results repeatable, earlier results and the messages untouched), through MessageData.to_numpy, DataLoader.to_numpy(dict) and with keep_*=False, '
                            'with the time source forced to INVALID, and in histories on one MessageData (convert; change the list in every way - assign shorter/longer/sub-list keeping first and last, slice assignment, del, pop, insert, extend, reverse, sort, add_message, time_align_data DROP/INSERT - convert again) at P1 times 1 s .. 1.3e9 s. '
                            'A case is distinct by (class, length, invalid positions, variant, representation, history).'
                            % (len(classes), sum(1 for c in classes if c['resolved'].split('.')[0] == table['generic_base']), N,
                               'all (length <= 4) / sampled' if ctx.thorough else 'all'))
    ctx.coverage['exhaustive'] = False
    ctx.trusted_base += ['Coq 8.16.1 kernel + vm_compute', 'extraction (ExtrOcamlBasic only) and ocaml/c16_driver.ml',
                         'translators/gen_c16.py (ast normalisation of to_numpy dict literals; rows it marks Opaque are covered by the dynamic comparison only)',
                         'numpy modelled, not verified: np.array over a comprehension = one entry per message in order, boolean-mask indexing = positional selection, .T/dtype casts are layout only',
                         'harness/py/c16_impl.py (message construction, time-axis detection, comparison)']
    ctx.assumptions += ['field values used by the dynamic comparison are representable in the output dtype (small integers, binary64 floats)',
                        'an NxA array with A = N is ambiguous to MessageData.to_numpy (read as AxN); the removal theorem excludes it']


def strip(q):
    return {k: q[k] for k in ('cls', 'n', 'nan', 'variant', 'rep', 'history') if k in q}


def describe(q, iss):
    k = iss['kind']
    head = '%s.to_numpy(%d messages%s)' % (q['cls'], q['n'], (', invalid P1 time at %s' % q['nan']) if q['nan'] else '')
    if k == 'same-named-output-differs-from-field':
        return '%s[%r] does not hold the field %s%s of the messages%s: got %s, fields are %s' % (
            head, iss['key'], 'details.' if iss.get('owner') == 'details' else '', iss['key'],
            (' (it mirrors %s)' % iss['mirrors']) if iss.get('mirrors') else '', iss.get('got'), iss.get('want'))
    if k == 'arrays-do-not-describe-the-current-messages':
        h = q['history']
        return ('MessageData(%s): to_numpy(), then %s on %d messages at P1 time %s s (spacing %s s), then to_numpy() again: attributes %s still hold the '
                'previous conversion instead of the current messages' % (q['cls'], iss['op'], h['n'], h['t0'], h['dt'], iss['stale_keys']))
    if k == 'repeated-conversion-raises':
        h = q['history']
        return ('MessageData(%s): to_numpy() on %d messages, %s, then to_numpy() again raises %s: %s' % (q['cls'], h['n'], iss['op'], iss['exception'], iss['text']))
    if k == 'output-depends-on-field-container-type':
        return ('%s on messages that went through %s: %r has shape %s, the same field values in Python-built messages give %s'
                % (head, iss['representation'], iss['key'], iss['shape_decoded_messages'], iss['shape_python_built_messages']))
    if k == 'nan-removal-inconsistent':
        return 'MessageData.to_numpy(remove_nan_times=True) for %s with %d invalid P1 time(s): %r keeps shape %s (raw %s) while the time-dependent arrays lose the invalid positions (expected %s)' % (
            q['cls'], iss['invalid'], iss['key'], iss['after_shape'], iss['raw_shape'], iss['expected_shape'])
    return '%s: %s' % (head, json.dumps(iss))


def replay(ctx, rec):
    case = rec.get('case', rec)
    q = case.get('request', case)
    if 'cls' not in q:
        print(json.dumps(rec, indent=1)[:3000])
        return 0
    table = gen_c16.generate()
    d = harness([json.dumps(strip(q))])[0]
    print('REQUEST', json.dumps(strip(q)))
    print('IMPL issues (implementation vs fields / vs positional removal):')
    for iss in d.get('issues', []):
        print('   ', json.dumps(iss))
    a = d.get('arrays') or {}
    if '__mask__' in a:
        model = vf.build_extracted('c16', 'C16', 'c16_driver.ml', conv=False)
        keys, rl, sl = model_lines(a)
        rc, out, _ = vf.run_lines(model, [rl, sl])
        print('IMPL  after shapes', {k: a[k]['after_shape'] for k in keys})
        print('MODEL', out[0])
        print('SPEC ', out[1])
    return 1 if d.get('issues') else 0
