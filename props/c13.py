"""C13 — time-range membership follows the documented interval semantics (utils/time_range.py)."""
import itertools, os
import vf
from translators import gen_c13

LEVEL = 'proof'
HARNESS = [vf.PY, os.path.join(vf.VERIF, 'harness/py/c13_impl.py')]
CORPUS = os.path.join(vf.VERIF, 'corpus', 'C13')

# All times are integers on a 1/8 s grid (exact binary64 values, exact sums and differences).
TIMES = [0, 8, 16, 20, 24, 28]                       # P1 times 0, 1, 2, 2.5, 3, 3.5 s
STARTS = ['N', 'F0', 'F8', 'F20']
ENDS = ['N', 'F0', 'F16', 'F28', 'Fi']
EXOTIC = [('T8', 'N', '-', '-'), ('N', 'T16', '-', '-'), ('T0', 'T28', '-', '8'), ('Tx', 'F16', '-', '-'), ('F8', 'Tx', '1', '-'),
          ('T8', 'T28', '0', '8'), ('Tx', 'Tx', '-', '-'), ('F8', 'Ti', '-', '-'), ('Fi', 'N', '0', '-'), ('Fi', 'F28', '1', '-'),
          ('Fn', 'F16', '1', '-'), ('Fn', 'N', '0', '8'), ('F8', 'Fn', '1', '-'), ('N', 'Fn', '0', '-'), ('N', 'Fn', '1', '8'),
          ('F-8', 'F16', '0', '-'), ('F-8', 'F16', '1', '-'), ('F8', 'F8', '1', '-'), ('F20', 'F16', '0', '8'), ('F0', 'F0', '0', '-'),
          ('F1', 'F27', '0', 'x'), ('N', 'F-4', '0', '20'), ('T20', 'N', '0', '16'),
          # argument forms: Python int, numpy.float64 / float32 / int64; 0 in every spelling; mixed representations with `absolute` omitted
          ('J8', 'J24', '0', '8'), ('J8', 'D28', '1', '-'), ('D8', 'D20', '0', '-'), ('E20', 'E28', '0', '8'), ('K8', 'K24', '1', '-'),
          ('J0', 'N', '1', '-'), ('K0', 'F28', '1', '-'), ('D0', 'N', '1', '8'), ('E0', 'N', '0', '-'), ('J0', 'J0', '0', '8'), ('T0', 'N', '-', '-'),
          ('F8', 'T28', '-', '-'), ('J8', 'T28', '-', '-'), ('Tx', 'F28', '-', '-'), ('Tx', 'J24', '-', '8'), ('N', 'T28', '-', '8'), ('F0', 'T28', '-', '-'),
          ('D8', 'Tx', '-', '-'), ('T8', 'F28', '-', '-'), ('T8', 'Tx', '-', '-'), ('F0', 'F0', '0', '20'), ('F0', 'N', '0', '20'), ('N', 'F0', '0', '20')]
BASES = [8 * 2 ** 24, 8 * 10 ** 9, 8 * 13 * 10 ** 8]          # 2^24 s, 1e9 s, 1.3e9 s on the 1/8 s grid


def seqs(maxlen, times, untimed=('u',), single_from=99):
    """all op strings up to maxlen over untimed letters + non-decreasing P1 times (repeats allowed)"""
    out = []
    for n in range(maxlen + 1):
        for pat in itertools.product([0, 1], repeat=n):          # 1 = timed
            k = sum(pat)
            for ts in itertools.combinations_with_replacement(times, k):
                slots = [i for i, p in enumerate(pat) if not p]
                choices = untimed if n < single_from else None
                if choices is None:
                    us_list = [tuple('us'[i % 2] for i in slots)]
                else:
                    us_list = itertools.product(choices, repeat=len(slots))
                for us in us_list:
                    it, iu, toks = iter(ts), iter(us), []
                    for p in pat:
                        toks.append('p%d' % next(it) if p else next(iu))
                    out.append(toks)
    return out


def opstr(toks):
    return ','.join(toks) if toks else '-'


def rand_ops(r, n, restart_p=0.0, kinds='usnv', lo=0, hi=40):
    toks, t = [], r.choice([lo, r.randint(lo, hi)])
    for _ in range(n):
        x = r.random()
        if x < restart_p:
            toks.append('r'); t = r.choice([lo, r.randint(lo, hi)])
        elif x < 0.45:
            toks.append(r.choice(kinds))
        else:
            t += r.choice([0, 0, 1, 2, 4, 4, 8, 8, 12])
            toks.append(r.choice('ppd') + str(t))
    return toks


def rand_bound(r, lo=True):
    x = r.random()
    if x < 0.2: return 'N'
    if x < 0.25: return 'Fi'
    if x < 0.28: return 'Fn'
    if x < 0.31: return 'Tx'
    if x < 0.36: return r.choice(['F0', 'F0', 'J0', 'D0', 'K0', 'T0'])
    v = r.randint(-4, 44) if x < 0.9 else r.choice([0, 8, 16])
    y = r.random()
    return ('T' if y < 0.15 and v >= 0 else r.choice('JDEK') if y < 0.3 else 'F') + str(v)


def rand_args(r):
    return (rand_bound(r), rand_bound(r, False), r.choice('-01'), r.choice(['-', '-', '0', '8', '13', '20', 'x']))


def hx(s):
    return s.encode('latin1').hex() or '-'


class Batch:
    """collects protocol lines (without mode token) and evaluates IMPL / MODEL / SPEC on all of them"""

    def __init__(self, model):
        self.model, self.lines, self.meta = model, [], []

    def add(self, line, spec_line=None, **meta):
        self.lines.append(line); meta['spec_line'] = spec_line or line; self.meta.append(meta)

    def evaluate(self):
        impl = vf.run_parallel(HARNESS, self.lines, env=vf.IMPL_ENV)
        mdl = vf.run_parallel(self.model, ['M ' + l for l in self.lines])
        spec = vf.run_parallel(self.model, ['S ' + m['spec_line'] for m in self.meta])
        return impl, mdl, spec


def eval3(model, line, spec_line=None):
    impl = vf.run_lines(HARNESS, [line], env=vf.IMPL_ENV)[1][0]
    m = vf.run_lines(model, ['M ' + line, 'L ' + line, 'S ' + (spec_line or line)])[1]
    return impl, m[0], m[1], m[2]


def first_diff(ops, impl_pub, spec):
    """which kind of message gets the first wrong verdict, and what came before it in the same pass"""
    msgs = [t for t in ops if t != 'r']
    if len(impl_pub) != len(spec) or len(spec) != len(msgs) or not set(impl_pub) <= {'0', '1'}:
        return {'class': 'raises' if impl_pub == 'E' else 'no-raise' if spec == 'E' else 'error' if impl_pub.startswith('!') else 'length'}
    i = next((i for i, (a, b) in enumerate(zip(impl_pub, spec)) if a != b), None)
    if i is None:
        return {'class': 'none'}
    # position of message i among ops; messages of the same pass before it
    n, before = -1, []
    for t in ops:
        if t == 'r':
            before = []
            continue
        n += 1
        if n == i:
            break
        before.append((t, spec[n]))
    return {'class': 'wrong-verdict', 'msg': 'timed' if msgs[i][0] in 'pd' else 'untimed',
            'impl': 'accept' if impl_pub[i] == '1' else 'reject',
            'after_rejected_timed': any(t[0] in 'pd' and v == '0' for t, v in before)}


def signature(line, impl_pub, spec):
    w = line.split()
    cmd = w[0]
    if cmd == 'H':
        a, b = impl_pub.split(','), spec.split(',')
        steps = w[ops_field(line)].split(',')
        i = next((i for i, (x, y) in enumerate(zip(a, b)) if x != y), None)
        if i is None or len(a) != len(b):
            return {'op': 'history', 'class': 'error' if impl_pub.startswith('!') else 'length'}
        st = steps[i]
        kinds = {'m': 'is_in_range', 'x': 'intersect', 'a': 'make_absolute', 'b': 'make_absolute-copy', 'c': 'copy', 'd': 'deepcopy', 'q': 'parse-object'}
        earlier = sorted(set(kinds[t[0]] for t in steps[:i] if t[0] != 'm'))
        return {'op': 'history', 'step': kinds[st[0]], 'impl': a[i] if st[0] != 'm' else ('accept' if a[i] == '1' else 'reject'),
                'msg': ('timed' if st.split('.')[1][0] in 'pd' else 'untimed') if st[0] == 'm' else None, 'after': '+'.join(earlier)}
    k = ops_field(line)
    ops = [] if w[k] == '-' else w[k].split(',')
    sig = {'op': {'R': 'is_in_range', 'I': 'intersect', 'A': 'make_absolute', 'P': 'parse', 'Q': 'parse-tuple', 'T': 'parse-object'}.get(cmd, cmd)}
    sig.update(first_diff(ops, impl_pub, spec))
    if cmd == 'R':
        sig['end_neg_inf'] = w[2] == 'Fn'
    if cmd == 'I':
        sig['kinds'] = ('abs' if _is_abs(w[1:5]) else 'rel') + '-' + ('abs' if _is_abs(w[5:9]) else 'rel')
        sig['end_neg_inf'] = 'Fn' in (w[2], w[6])
    if cmd == 'A':
        sig['kind'] = 'abs' if _is_abs(w[1:5]) else 'rel'
        sig['twice'] = w[6] == '1'
        sig['end_neg_inf'] = w[2] == 'Fn'
    if cmd == 'Q':
        sig['end_neg_inf'] = w[2] == 'Fn'
    return sig


def _after_restart(ops, msg_index):
    n = -1
    seen_r = False
    for t in ops:
        if t == 'r':
            seen_r = True
        else:
            n += 1
            if n == msg_index:
                return seen_r
    return False


def _is_abs(a):
    if a[2] != '-':
        return a[2] == '1'
    return a[0][0] == 'T' or a[1][0] == 'T'


def ops_field(line):
    """index of the OPS token in a protocol line"""
    w = line.split()
    if w[0] == 'H':
        return 2 + 4 * int(w[1])
    return {'R': 5, 'I': 10, 'A': 7, 'P': 3, 'Q': 5, 'PS': 5, 'T': 6}[w[0]]


def started_expected(opstok, spec_bools):
    """in_range_started() after the ops: has a message of the current pass been accepted (per the SPEC verdicts)"""
    ops = [] if opstok == '-' else opstok.split(',')
    vs = list(spec_bools.replace('-', ''))
    cur = False
    for t in ops:
        if t == 'r':
            cur = False
        else:
            v = vs.pop(0)
            cur = cur or v == '1'
    return '1' if cur else '0'


def verd(out):
    """the verdict part of an IMPL / MODEL output line (without getters and private state)"""
    return out.split('|')[0].split(';')[0]


def shrink(model, line, spec_line, sig):
    """drop ops one at a time while IMPL and SPEC still disagree with the same signature"""
    for _ in range(40):
        w = line.split(); k = ops_field(line)
        ops = [] if w[k] == '-' else w[k].split(',')
        if len(ops) <= 1:
            break
        cands = []
        for i in range(len(ops)):
            o2 = ops[:i] + ops[i + 1:]
            w2 = list(w); w2[k] = opstr(o2)
            s2 = None
            if spec_line:
                ws = spec_line.split(); ws[ops_field(spec_line)] = opstr(o2); s2 = ' '.join(ws)
            cands.append((' '.join(w2), s2))
        impl = vf.run_lines(HARNESS, [c[0] for c in cands], env=vf.IMPL_ENV)[1]
        spec = vf.run_lines(model, ['S ' + (c[1] or c[0]) for c in cands])[1]
        for (l2, s2), i, s in zip(cands, impl, spec):
            ip = verd(i)
            if s not in ('X', 'U') and ip != s and signature(l2, ip, s) == sig:
                line, spec_line = l2, s2
                break
        else:
            break
    return line, spec_line


def run(ctx):
    try:
        consts = gen_c13.generate()
        ctx.notes.append('generated constants (derived from the behaviour of the working tree): %r' % consts)
        ctx.obligation('translator gen_c13 derived separator, specifiers, field count and open-start value from the working tree', True, 'translator', repr(consts))
    except Exception as e:
        # keep going on the last generated (or the documented) constants so that the failing-input search still runs
        ctx.obligation('translator gen_c13 derived separator, specifiers, field count and open-start value from the working tree', False, 'translator', repr(e)[:400])
        ctx.pending_broken = {'kind': 'translator', 'what': 'gen_c13 cannot derive the constants of TimeRange from the working tree: %r' % (e,)}
        gen = os.path.join(vf.THEORIES, 'Generated', 'TimeRangeConsts.v')
        if not os.path.exists(gen):
            vf.write_if_changed(gen, gen_c13.DEFAULT_TEXT)
    if not ctx.coq():
        if not getattr(ctx, 'pending_broken', None):
            ctx.broken_proof()
    elif ctx.thorough and not ctx.coqchk():
        ctx.broken_proof('coqchk rejected the compiled development')
    model = vf.build_extracted('c13', 'C13', 'c13_driver.ml')
    r = ctx.rng
    B = Batch(model)

    # ---- corpus (minimised past failures) first ------------------------------------------------------
    if os.path.isdir(CORPUS):
        for fn in sorted(os.listdir(CORPUS)):
            for l in open(os.path.join(CORPUS, fn)):
                l = l.split('#')[0].strip()
                if l:
                    main, _, sl = l.partition(' ;; ')
                    B.add(main, sl or None, kind='corpus')

    # ---- is_in_range: bounded-exhaustive --------------------------------------------------------------
    L = 7 if ctx.thorough else 6
    all_seqs = seqs(L, TIMES, untimed=('u', 's'), single_from=5)
    short = [s for s in all_seqs if len(s) <= 3]
    cfgs = [(a, b, c, d) for a in STARTS for b in ENDS for c in '01' for d in ('-', '8')]
    FLAGS = ['-', '-', '-', 't', '-', 'p', '-', 'i', '-', 'n', '-', 'f']     # options / argument forms that must not matter
    nexh = 0
    for cfg in cfgs:
        for s in all_seqs:
            nexh += 1
            B.add('R %s %s %s %s %s %s' % (cfg + (opstr(s), FLAGS[nexh % len(FLAGS)])), kind='exh')
    for cfg in EXOTIC:
        for s in short:
            B.add('R %s %s %s %s %s -' % (cfg + (opstr(s),)), kind='exotic')
    # restart(): every history of length <= 2 (3), then restart, then every sequence of length <= 2 (3)
    k = 3 if ctx.thorough else 2
    seg = [s for s in all_seqs if len(s) <= 2]
    for cfg in cfgs:
        for s1 in [s for s in all_seqs if len(s) <= k]:
            for s2 in seg:
                if len(s1) + len(s2) > 0:
                    B.add('R %s %s %s %s %s -' % (cfg + (opstr(s1 + ['r'] + s2),)), kind='restart')
    # random longer sequences, all message kinds, return_timestamps / float t0 variants, restarts
    for _ in range(120000 if ctx.thorough else 20000):
        cfg = rand_args(r)
        n = r.randint(6, 30)
        B.add('R %s %s %s %s %s %s' % (cfg + (opstr(rand_ops(r, n, restart_p=r.choice([0, 0.05, 0.15]))),
                                              r.choice(['-', '-', 't', 'f', 'tf', 'i', 'n', 'o', 'p', 'to', 'tp']))), kind='random')
    # large P1 times (2^24 s, 1e9 s, 1.3e9 s) with fractional bounds: absolute bounds near the base, relative bounds with t0 = base / unset
    bseqs = seqs(4 if ctx.thorough else 3, [0, 8, 16, 20, 28], untimed=('u',))
    for base in BASES:
        bc = [('N' if a is None else 'F%d' % (base + a), 'N' if b is None else 'F%d' % (base + b), '1', d)
              for a in (None, 1, 8, 20) for b in (None, 16, 27, 28) for d in ('-',)]
        bc += [('N' if a is None else 'F%d' % a, 'N' if b is None else 'F%d' % b, '0', d)
               for a in (None, 0, 1, 8, 20) for b in (None, 16, 27, 28) for d in ('-', str(base), str(base + 8))]
        bc += [('T%d' % (base + 8), 'T%d' % (base + 27), '-', '-'), ('D%d' % (base + 1), 'N', '1', '-'), ('J%d' % (base + 8), 'J%d' % (base + 24), '1', '-')]
        for cfg in bc:
            for sq in bseqs:
                B.add('R %s %s %s %s %s -' % (cfg + (opstr([t if t[0] != 'p' else 'p%d' % (base + int(t[1:])) for t in sq]),)), kind='large-times')

    # ---- intersect: all pairs of grid ranges ----------------------------------------------------------
    iranges = [(a, b, c, d) for a in STARTS for b in ('N', 'F16', 'F28') for c in '01' for d in ('-', '8')]
    iseqs = seqs(4 if ctx.thorough else 3, [8, 16, 20, 28], untimed=('u',))
    for ia, A in enumerate(iranges):
        for ib, Bq in enumerate(iranges):
            for js, s in enumerate(iseqs):
                B.add('I %s %s %s %s %s %s %s %s %d %s' % (A + Bq + ((ia + ib + js) % 2, opstr(s))), kind='intersect')
    for _ in range(60000 if ctx.thorough else 12000):
        A, Bq = rand_args(r), rand_args(r)
        B.add('I %s %s %s %s %s %s %s %s %d %s' % (A + Bq + (r.randint(0, 1), opstr(rand_ops(r, r.randint(1, 14), restart_p=r.choice([0, 0.1]), lo=r.choice([0, 8, 13, 20]))))), kind='intersect-random')

    # ---- make_absolute ---------------------------------------------------------------------------------
    for A in iranges + EXOTIC:
        for t in ('-', '8', '20'):
            for tw in '01':
                for s in iseqs:
                    B.add('A %s %s %s %s %s %s %s' % (A + (t, tw, opstr(s))), kind='make_absolute')

    # ---- parse ------------------------------------------------------------------------------------------
    fields = ['', '0', '1', '2.5', '3', '-1', 'inf', '-inf', '0.125', '1.', '.5', '+2', '-0', '007', '3.500', '-2.5', '+inf']
    pseqs = seqs(3, [0, 8, 20, 24, 28], untimed=('u',))
    texts = []
    for a in fields:
        texts.append(('1', a, '', a))
        for b in fields:
            texts.append(('2', a, b, a + ':' + b))
            texts.append(('3a', a, b, a + ':' + b + ':abs'))
            texts.append(('3r', a, b, a + ':' + b + ':rel'))
    for kind, a, b, txt in texts:
        for ab in '-01':
            for s in [[], ['u'], ['p0', 'u', 'p8', 'p20', 'p24', 'p28', 'u']] + r.sample(pseqs, 24 if ctx.thorough else 8):
                B.add('P %s %s %s' % (hx(txt), ab, opstr(s)), 'PS %s %s %s %s %s' % (kind, hx(a), hx(b), ab, opstr(s)), kind='parse-text', text=txt)
    alpha = '01.-+:abrelsinf 5'
    junk = [''.join(t) for n in range(0, 4 if ctx.thorough else 3) for t in itertools.product(alpha, repeat=n)]
    junk += ['1:2:abs:', '1:2:abs:3', ':::', '1:2:ABS', '1:2:ab', '1:2:abss', '1:2: abs', 'abs', 'rel', '1e1:', ' 1:2', '1 :2', '1_0:3', 'nan:3', '3:nan',
             'Infinity:', 'INF:', '1:x:bad', 'x:1:bad', '1.5.2:3', '--1:3', '+-1:', '1:2:rel:abs', '٣:5', '1:2\n', '0x10:', '1:+', '.:', '-.5:3', '-:', '+:']
    for _ in range(3000 if ctx.thorough else 600):
        t = r.choice(texts)[3]
        t = list(t)
        for _ in range(r.randint(1, 2)):
            p = r.randint(0, len(t))
            if t and r.random() < 0.4:
                del t[min(p, len(t) - 1)]
            else:
                t.insert(p, r.choice(alpha))
        junk.append(''.join(t))
    for txt in dict.fromkeys(junk):
        try:
            txt.encode('latin1')
        except UnicodeEncodeError:
            continue
        for ab in ('-', '1'):
            B.add('P %s %s %s' % (hx(txt), ab, 'u,p8,s,p20,p24,u'), 'PS X - - - -', kind='parse-junk', text=txt)
    nq = 0
    for A in iranges + EXOTIC:
        for ty in ('-', hx('abs'), hx('rel'), hx('ABS'), hx('')):
            for ab in '-01':
                for s in r.sample(pseqs, 6):
                    nq += 1
                    B.add('Q %s %s %s %s %s %s' % (A[0], A[1], ty, ab, opstr(s), ['-', 'l'][nq % 2]), kind='parse-tuple')
        for ab in '-01':
            B.add('Q %s N - %s %s 1' % (A[0], ab, opstr(r.choice(pseqs))), kind='parse-tuple')             # (start,)
            B.add('Q %s %s - %s %s 4l' % (A[0], A[1], ab, opstr(r.choice(pseqs))), kind='parse-tuple')     # 4 items: refused
            B.add('Q %s %s %s %s %s 4' % (A[0], A[1], hx('abs'), ab, opstr(r.choice(pseqs))), kind='parse-tuple')

    for A in iranges + EXOTIC:
        for ab in '-01':
            for s in r.sample(pseqs, 4):
                B.add('T %s %s %s %s %s %s' % (A + (ab, opstr(s))), kind='parse-object')

    # ---- histories on the SAME objects: intersect both ways (in place / copy) then reuse of the result AND of both operands,
    #      second pass with different data, copies, make_absolute twice, parse(object); set-up steps also in mid-history
    hr = [('F8', 'F24', '0', '-'), ('F8', 'F24', '0', '80'), ('N', 'F16', '0', '80'), ('F0', 'N', '0', '-'), ('F0', 'F0', '0', '80'), ('N', 'N', '0', '-'),
          ('N', 'N', '-', '-'), ('N', 'N', '1', '-'), ('F88', 'F104', '1', '-'), ('F88', 'F104', '1', '80'), ('N', 'F96', '1', '-'), ('T84', 'N', '-', '-'),
          ('F0', 'F100', '1', '80'), ('F0', 'N', '1', '-'), ('F12', 'N', '0', '-'), ('J8', 'D20', '0', '80'), ('T88', 'T100', '-', '80'), ('N', 'T100', '-', '-'),
          ('F20', 'F16', '0', '80'), ('F96', 'F90', '1', '-')]
    passes = [['p80', 'u', 'p88', 's', 'p92', 'p96', 'u', 'p104', 'u'], ['u', 'p80', 'p80', 'p100', 'u', 'p120'], ['p80', 'p84', 'u'], ['u', 's'],
              ['p88', 'u', 'p100', 'p104', 'u'], ['p72', 'u', 'p88', 'p96', 'u', 'p112']]

    def hist(ranges, steps):
        return 'H %d %s %s' % (len(ranges), ' '.join(' '.join(x) for x in ranges), ','.join(steps))

    def on(name, toks):
        return ['m%d.%s' % (name, t) for t in toks]
    for ia, A in enumerate(hr):
        for ib, Bq in enumerate(hr):
            for ip in (0, 1):
                p1 = passes[(ia + ib) % 3]
                p2 = passes[3 + (ia + 2 * ib + ip) % 3]
                # result, then both operands, then a second pass over everything with other data
                B.add(hist([A, Bq], ['x0.1.2.%d' % ip] + on(2, p1) + on(0, p1) + on(1, p1) + ['m2.r', 'm0.r', 'm1.r'] + on(1, p2) + on(2, p2) + on(0, p2)), kind='history')
                # operands interleaved with the result, message by message
                B.add(hist([A, Bq], ['x0.1.2.%d' % ip] + [x for t in p1 for x in ('m2.' + t, 'm1.' + t, 'm0.' + t)]), kind='history')
        # copies behave like the original; make_absolute twice; parse(object); narrowing an unrestricted range
        p1 = passes[ia % 3]; p2 = passes[3 + ia % 3]
        B.add(hist([A], ['c0.1', 'd0.2'] + [x for t in p1 for x in ('m0.' + t, 'm1.' + t, 'm2.' + t)] + ['m1.r'] + on(1, p2) + on(0, ['r']) + on(0, p2)), kind='history')
        B.add(hist([A], ['a0.80', 'a0.80', 'b0.1.96', 'q0.2.-', 'q0.3.1', 'q0.3.0'] + on(0, p1) + on(1, p1)), kind='history')
        B.add(hist([A], ['b0.1.80', 'a1.-', 'c1.2'] + on(0, p1) + on(1, p1) + on(2, p1) + ['a0.-', 'a0.80']), kind='history')
        B.add(hist([('N', 'N', '-', '-'), A], on(0, p2[:3]) + ['x0.1.2.1'] + on(0, p1) + on(1, p1)), kind='history')       # used, then narrowed in place
        B.add(hist([('N', 'N', '-', '-'), A], ['x0.1.2.1'] + on(2, p1) + ['m0.r'] + on(0, p2) + on(1, p2)), kind='history')
        B.add(hist([A], on(0, p1[:4]) + ['c0.1', 'd0.2'] + on(0, p1[4:]) + on(1, p1[4:]) + on(2, p1[4:])), kind='history')  # copies in mid-pass
    for _ in range(60000 if ctx.thorough else 12000):
        n = r.randint(1, 3)
        ranges = [r.choice(hr) if r.random() < 0.7 else rand_args(r) for _ in range(n)]
        ranges = [(a, b, c, d if d != 'x' else '-') for a, b, c, d in ranges]
        names, cell, steps = list(range(n)), {i: i for i in range(n)}, []
        tcell = {}
        free = r.random() < 0.4                       # set-up steps anywhere (outside the theorems: MODEL correspondence only)

        def setup():
            k = len(names); c = r.random(); i = r.choice(names)
            if c < 0.45 and len(names) >= 1:
                j = r.choice(names); ip = r.randint(0, 1)
                steps.append('x%d.%d.%d.%d' % (i, j, k, ip)); names.append(k); cell[k] = cell[i] if ip else k
            elif c < 0.6:
                steps.append('a%d.%s' % (i, r.choice(['-', '80', '80', '96'])))
            elif c < 0.7:
                steps.append('b%d.%d.%s' % (i, k, r.choice(['-', '80', '80']))); names.append(k); cell[k] = k
            elif c < 0.9:
                steps.append('%s%d.%d' % (r.choice('cd'), i, k)); names.append(k); cell[k] = k
            else:
                steps.append('q%d.%d.%s' % (i, k, r.choice('-01'))); names.append(k); cell[k] = cell[i]
        for _ in range(r.randint(0, 4)):
            setup()
        for _ in range(r.randint(3, 24)):
            x = r.random()
            if free and x < 0.12:
                setup(); continue
            i = r.choice(names); c = cell[i]
            if x < 0.2:
                steps.append('m%d.r' % i); tcell[c] = r.choice([72, 80, 80, 88])
            elif x < 0.5:
                steps.append('m%d.%s' % (i, r.choice('usnv')))
            else:
                tcell[c] = tcell.get(c, r.choice([80, 80, 80, 72, 88])) + r.choice([0, 0, 4, 8, 8, 12, 16])
                steps.append('m%d.%s%d' % (i, r.choice('ppd'), tcell[c]))
        # names that a refused (ValueError) step did not create are unknown to all three runners alike: keep only well-formed programs
        B.add(hist(ranges, steps), kind='history-random')

    ctx.log('evaluating %d cases' % len(B.lines))
    impl, mdl, spec = B.evaluate()
    ctx.log('evaluated')

    # ---- compare ---------------------------------------------------------------------------------------
    viol = {}      # signature key -> (n_ops, line, spec_line, impl, model, spec, kind)
    state_names = ['_in_range_started', '_in_range_ended', 'p1_t0', 'start', 'end', 'absolute']
    missing = set()
    ncorr = 0
    for line, meta, i, m, s in zip(B.lines, B.meta, impl, mdl, spec):
        kind = meta['kind']
        ip, _, ist = i.partition('|')
        mp, _, mst = m.partition('|')
        iv = verd(i)
        ctx.count('case:' + kind)
        ctx.count('impl:' + ('raises ValueError' if iv == 'E' else 'unexpected exception' if iv.startswith('!') else 'verdicts'))
        w = line.split()
        nontriv = iv not in ('-', 'E') and ('0' in iv and '1' in iv)
        ctx.case(line, nontrivial=nontriv)
        if meta['spec_line'].startswith('PS X'):
            s = 'X'
        if i.startswith('?') or m.startswith(('?', '!')) or s.startswith(('?', '!')):
            raise RuntimeError('protocol error on %r: impl=%r model=%r spec=%r' % (line, i, m, s))
        if s == 'X':
            ctx.count('spec:outside-stated-domain (compared IMPL vs MODEL only)')
        if s == 'U' or m == 'U':
            ctx.count('parse:float-text-outside-model (skipped)')
        bad = s not in ('X', 'U') and iv != s
        sig = signature(line, iv, s) if bad else None
        if not bad and s not in ('X', 'U', 'E') and w[0] != 'H' and ';' in ip and set(s) <= {'0', '1', '-'}:
            # in_range_started() must say whether a message of the current pass has been accepted
            want = started_expected(w[ops_field(line)], s)
            if ip.split(';')[1][1:2] != want:
                bad, sig = True, {'op': 'in_range_started', 'impl': ip.split(';')[1][1:2], 'cmd': w[0]}
        if bad:
            key = repr(sorted(sig.items(), key=lambda kv: kv[0]))
            n = len(w[ops_field(line)].split(','))
            if key not in viol or n < viol[key][0]:
                viol[key] = (n, line, meta['spec_line'] if meta['spec_line'] != line else None, sig, kind)
            continue
        if m == 'U':
            continue
        if ip != mp:
            ctx.broken_correspondence('model and implementation give different verdicts / is_specified() / in_range_started() on: %s' % line,
                                      {'line': line, 'python': explain(line), 'impl': i, 'model': m, 'spec': s})
            continue
        ncorr += 1
        # advisory: private state, attribute by attribute, only where the attribute exists
        if ist and mst and ist != mst:
            skip_t0 = w[0] == 'R' and 't' in w[6]       # return_timestamps=True also sets p1_t0 on unspecified ranges
            for io, mo in zip(ist.split('/'), mst.split('/')):
                for name, a, b in zip(state_names, io.split(' '), mo.split(' ')):
                    if a == 'NA':
                        missing.add(name)
                    elif a != b and not (name == 'p1_t0' and skip_t0):
                        ctx.broken_correspondence('private attribute %s is %s in the implementation, %s in the model, after: %s' % (name, a, b, line),
                                                  {'line': line, 'python': explain(line), 'impl': i, 'model': m, 'spec': s})
    for name in sorted(missing):
        ctx.notes.append('private attribute %s no longer exists; its comparison was skipped' % name)
    ctx.count('correspondence: identical public verdicts', ncorr)

    for key, (n, line, sl, sig, kind) in sorted(viol.items()):
        if kind not in ('exh', 'exotic', 'corpus') and n > 2 and sig.get('op') != 'in_range_started':
            line, sl = shrink(model, line, sl, sig)
        i, m, lg, s = eval3(model, line, sl)
        case = {'line': line, 'python': explain(line), 'spec_line': sl, 'impl': i, 'model': m, 'model_before_repairs': lg, 'spec': s, 'found_in': kind}
        ctx.violation(sig, 'TimeRange: implementation gives %s, the documented interval semantics give %s, on: %s   [%s]' % (i.split('|')[0], s, line, explain(line)), case)


    samples = [x for x in zip(B.lines, impl) if verd(x[1]) not in ('-', 'E')]
    for x in samples[::max(1, len(samples) // 6)][:6]:
        ctx.sample({'line': x[0], 'impl': x[1]})
    ctx.coverage['rule'] = (
        'is_in_range: every op sequence of length <= %d over {bytes object, system-timed event, P1 time in {0,1,2,2.5,3,3.5} s non-decreasing with repeats} '
        'x start in {None,0,1,2.5} x end in {None,0,2,3.5,inf} x absolute/relative x t0 in {unset, 1 s}; the same configurations with restart() after every history of length <= %d '
        'followed by every sequence of length <= 2; %d further configurations (Timestamp/NaN-Timestamp/-inf/negative/empty bounds, absolute=None) on all sequences of '
        'length <= 3; random sequences of 6-30 ops with NaN-P1 / no-time / MeasurementDetails messages, restarts, return_timestamps=True, float t0. '
        'intersect: all %d x %d pairs of grid ranges (in place and copy) on every sequence of length <= %d, plus random pairs. make_absolute: once and twice. '
        'parse: %d texts of the documented form x absolute argument (agreeing and conflicting), malformed / mutated texts, tuples and lists of 1-4 items, TimeRange objects. '
        'argument forms: float, Python int, numpy float64/float32/int64, Timestamp, NaN Timestamp, None, +-inf, 0 in every spelling, mixed representations with absolute omitted / None / positional; '
        't0 as Timestamp, float, int, numpy. large P1 times (2^24 s, 1e9 s, 1.3e9 s) with fractional bounds, absolute and relative. '
        'histories on the same objects in one interpreter: intersect in both orders, in place and as a copy, then passes over the result AND both operands, restart and a second pass with other data, '
        'copy/deepcopy, make_absolute twice and as a copy, parse(object), unrestricted ranges narrowed by intersect, set-up steps in mid-pass (those are compared with the MODEL only); '
        'identity of results (in place = same object, otherwise a new one), operands / messages / constructor Timestamps unchanged after every call, '
        'is_specified() and in_range_started() after every case, return_timestamps=True returning the message\'s own timestamps. '
        'A case is one protocol line; it is counted non-trivial when the implementation returned both True and False in it.'
        % (L, k, len(EXOTIC), len(iranges), len(iranges), 4 if ctx.thorough else 3, len(texts)))
    ctx.coverage['exhaustive'] = True
    ctx.trusted_base += ['Coq 8.16.1 kernel + vm_compute', 'extraction (ExtrOcamlBasic only) and ocaml/conv.ml + c13_driver.ml',
                         'hand transcription of TimeRange control flow (held by correspondence on public verdicts and, where present, private attributes)',
                         'Python float(str) modelled by pyfloat on [+-]digits[.digits] / inf only; other float syntax is outside the model (counted, skipped)',
                         'Python float arithmetic modelled by Z on a 1/8 s grid (exact there); binary64 rounding of non-dyadic times is not modelled',
                         'translators/gen_c13.py (separator, specifiers, field count and the open-start value derived by probing parse()/is_in_range() of the working tree)',
                         'IMPL harness harness/py/c13_impl.py']
    ctx.assumptions += ['P1 times within a pass do not decrease (documented precondition)', 'bounds are not float NaN (NaN Timestamps are covered)',
                        'message P1 times and t0 are finite']


def _py_bound(tok):
    if tok == 'N':
        return 'None'
    v = {'i': 'inf', 'n': '-inf', 'x': 'nan'}.get(tok[1:]) or repr(int(tok[1:]) / 8.0)
    if tok[0] in 'JDEK':
        return {'J': 'int(%s)', 'D': 'numpy.float64(%s)', 'E': 'numpy.float32(%s)', 'K': 'numpy.int64(%s)'}[tok[0]] % v
    return ('Timestamp(%s)' % v) if tok[0] == 'T' else ("float('%s')" % v if v in ('inf', '-inf', 'nan') else v)


def _py_range(a):
    t0 = 'None' if a[3] == '-' else 'Timestamp()' if a[3] == 'x' else 'Timestamp(%r)' % (int(a[3]) / 8.0)
    return 'TimeRange(start=%s, end=%s, absolute=%s, p1_t0=%s)' % (_py_bound(a[0]), _py_bound(a[1]), {'-': 'None', '0': 'False', '1': 'True'}[a[2]], t0)


def _py_ops(tok):
    names = {'u': 'bytes object', 's': 'EventNotificationMessage(system time)', 'n': 'PoseMessage(p1_time=NaN)', 'v': 'MessageRequest()'}
    out = []
    for t in ([] if tok == '-' else tok.split(',')):
        out.append('restart()' if t == 'r' else names[t] if t in names else '%s(P1 %.3f s)' % ('PoseMessage' if t[0] == 'p' else 'IMUInput', int(t[1:]) / 8.0))
    return '; '.join(out)


def explain(line):
    """the protocol line as Python calls on the real class"""
    w = line.split(); c = w[0]
    if c == 'R':
        return '%s; is_in_range(%s) on: %s' % (_py_range(w[1:5]), 'return_timestamps=True' if 't' in w[6] else '', _py_ops(w[5]))
    if c == 'H':
        n = int(w[1])
        out = ['r%d = %s' % (i, _py_range(w[2 + 4 * i:6 + 4 * i])) for i in range(n)]
        for st in w[2 + 4 * n].split(','):
            f = st[1:].split('.')
            if st[0] == 'm':
                out.append('r%s: %s' % (f[0], _py_ops(st[1:].partition('.')[2])))
            elif st[0] == 'x':
                out.append('r%s = r%s.intersect(r%s%s)' % (f[2], f[0], f[1], '' if f[3] == '1' else ', in_place=False'))
            elif st[0] == 'a':
                out.append('r%s.make_absolute(%s)' % (f[0], 'None' if f[1] == '-' else 'Timestamp(%r)' % (int(f[1]) / 8.0)))
            elif st[0] == 'b':
                out.append('r%s = r%s.make_absolute(%s, in_place=False)' % (f[1], f[0], 'None' if f[2] == '-' else 'Timestamp(%r)' % (int(f[2]) / 8.0)))
            elif st[0] in 'cd':
                out.append('r%s = copy.%s(r%s)' % (f[1], 'copy' if st[0] == 'c' else 'deepcopy', f[0]))
            elif st[0] == 'q':
                out.append('r%s = TimeRange.parse(r%s, absolute=%s)' % (f[1], f[0], {'-': 'None', '0': 'False', '1': 'True'}[f[2]]))
        return '; '.join(out)
    if c == 'I':
        return 'A = %s; B = %s; R = A.intersect(B%s); is_in_range on: %s' % (_py_range(w[1:5]), _py_range(w[5:9]), '' if w[9] == '1' else ', in_place=False', _py_ops(w[10]))
    if c == 'A':
        return 'r = %s; r.make_absolute(%s)%s; is_in_range on: %s' % (_py_range(w[1:5]), 'None' if w[5] == '-' else 'Timestamp(%r)' % (int(w[5]) / 8.0), ' twice' if w[6] == '1' else '', _py_ops(w[7]))
    if c == 'P':
        return 'TimeRange.parse(%r, absolute=%s); is_in_range on: %s' % (bytes.fromhex('' if w[1] == '-' else w[1]).decode('latin1'), {'-': 'None', '0': 'False', '1': 'True'}[w[2]], _py_ops(w[3]))
    if c == 'Q':
        return 'TimeRange.parse((%s, %s%s), absolute=%s); is_in_range on: %s' % (_py_bound(w[1]), _py_bound(w[2]), '' if w[3] == '-' else ', %r' % bytes.fromhex(w[3]).decode('latin1'), {'-': 'None', '0': 'False', '1': 'True'}[w[4]], _py_ops(w[5]))
    if c == 'T':
        return 'TimeRange.parse(%s, absolute=%s); is_in_range on: %s' % (_py_range(w[1:5]), {'-': 'None', '0': 'False', '1': 'True'}[w[5]], _py_ops(w[6]))
    return line


def replay(ctx, rec):
    case = rec.get('case', rec)
    try:
        gen_c13.generate()
    except Exception as e:
        print('(translator gen_c13 failed: %r; using the last generated constants)' % (e,))
    model = vf.build_extracted('c13', 'C13', 'c13_driver.ml')
    if 'line' not in case:
        print(case); return 0
    i, m, lg, s = eval3(model, case['line'], case.get('spec_line'))
    print('CASE ', case['line'])
    print('      ', explain(case['line']))
    print('       (verdicts: one 0/1 per message; E = ValueError; ";" is_specified() in_range_started(); after | the private state started ended t0 start end absolute, times in 1/8 s;')
    print('        histories: one result per step, "." = done, flags s = result is the object itself, o = is the other operand, M = an operand that must not change did)')
    print('IMPL ', i); print('MODEL', m); print('MODEL(before repairs)', lg); print('SPEC ', s)
    return 0
