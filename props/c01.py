"""C01 — message payloads survive serialize/parse unchanged, with consistent sizes."""
import glob, json, os, subprocess
from concurrent.futures import ThreadPoolExecutor
import vf

LEVEL = 'proof'
HARNESS = os.path.join(vf.VERIF, 'harness/py/c01_laws.py')
NOISE = ('leap', 'Leap')


def _impl(args, env_extra=None, timeout=3000):
    env = dict(vf.IMPL_ENV)
    env.update(env_extra or {})
    p = subprocess.run([vf.PY, HARNESS] + args, capture_output=True, text=True, timeout=timeout, env=env)
    err = '\n'.join(l for l in p.stderr.split('\n') if l and not any(n in l for n in NOISE))
    return p.returncode, p.stdout, err


def load_corpus():
    out = {}
    for f in sorted(glob.glob(os.path.join(vf.VERIF, 'corpus', 'C01', '*.json'))):
        for e in json.load(open(f)):
            out.setdefault(e['key'], []).append(e['hex'])
    return out


def run_laws(ctx, keys, seed):
    """Shard the keys over NCPU harness processes; returns {key: result}."""
    corpus = load_corpus()
    k = min(vf.NCPU, len(keys))
    # heavy (container sub-payload) keys are many and small, message classes fewer and larger: deal round-robin
    shards = [keys[i::k] for i in range(k)]
    tier = 'thorough' if ctx.thorough else 'quick'

    def one(sh):
        rc, so, se = _impl(['run', str(seed), tier] + sh, {'C01_CORPUS': json.dumps({x: corpus[x] for x in sh if x in corpus})})
        res = {}
        for line in so.split('\n'):
            if line.startswith('{'):
                d = json.loads(line)
                res[d['key']] = d
        missing = [x for x in sh if x not in res]
        if missing:
            raise RuntimeError('IMPL harness produced no result for %s (rc=%s): %s' % (missing[:3], rc, se[-1500:]))
        return res
    out = {}
    with ThreadPoolExecutor(k) as ex:
        for r in ex.map(one, shards):
            out.update(r)
    return out


def signature(key, law, detail):
    cls, _, sub = key.partition('[')
    sig = {'class': cls, 'law': law}
    if sub:
        sig['sub'] = sub.rstrip(']')
    if detail:
        sig['detail'] = detail
    return sig


def floor(ctx, keys, seed):
    """IMPL vs SPEC: the laws of the property evaluated on the implementation for every class and input."""
    res = run_laws(ctx, keys, seed)
    never_parsed, law_only = [], []
    for key in keys:
        d = res[key]
        if 'harness_error' in d:
            raise RuntimeError('IMPL harness failed on %s: %s' % (key, d['harness_error']))
        ctx.count('inputs', d['evals'])
        ctx.count('inputs-parsed', d['parsed'])
        ctx.count('inputs-all-laws-hold', d['laws_ok'])
        ctx.count('explicit-refusals(container content not understood)', d['refusals'])
        for pk, c in d['parse_fail'].items():
            ctx.count('parse-failure:' + pk.split(':', 1)[1], c)
        for c in d['cases']:
            ctx.case((key, c['hex']), nontrivial=True)
        ctx.evals += d['evals'] - len(d['cases'])
        if d['parsed'] == 0:
            never_parsed.append(key)
        if d.get('seed_fail'):
            sf = d['seed_fail']
            ctx.violation(signature(key, 'registered-type-does-not-parse', sf['exc']),
                          '%s: the all-zero encoding of this registered sub-payload type does not parse: %s: %s' % (key, sf['exc'], sf['msg']),
                          {'key': key, 'hex': sf['hex'], 'law': 'registered-type-does-not-parse', 'impl': sf})
        for vk, v in sorted(d['violations'].items()):
            ctx.count('law-failures:' + v['law'], v['count'])
            ctx.violation(signature(key, v['law'], v['detail']),
                          '%s: %s   [input %s%s, %d of %d parsed inputs]' % (key, v['text'].replace('\n', ' '), v['hex'][:96], '…' if len(v['hex']) > 96 else '', v['count'], d['parsed']),
                          {'key': key, 'hex': v['hex'], 'law': v['law'], 'detail': v['detail'], 'impl': v['text']})
    if never_parsed:
        ctx.notes.append('keys for which no generated input parsed (property vacuous there): %s' % ', '.join(never_parsed))
    ctx.coverage['greedy_layouts'] = sorted(k for k in keys if res[k].get('greedy'))
    return res


def run(ctx):
    seed = ctx.rng.randrange(1 << 30)
    rc, so, se = _impl(['list'])
    if rc != 0 or not so.strip().startswith('['):
        raise RuntimeError('cannot enumerate payload classes: ' + se[-1500:])
    keys = json.loads(so.strip().split('\n')[-1])
    ctx.coverage['classes'] = [k for k in keys if '[' not in k]
    ctx.coverage['container_subpayloads'] = [k for k in keys if '[' in k]
    res = floor(ctx, keys, seed)
    ctx.sample({k: {'inputs': res[k]['evals'], 'parsed': res[k]['parsed'], 'parse_fail': res[k]['parse_fail']} for k in list(res)[:6]})
    ctx.coverage['rule'] = ('every class registered in MessagePayload.message_type_to_class + MessageHeader, Timestamp, MeasurementDetails, SatelliteInfo + one key per '
                            'registered ConfigType / InterfaceConfigType / FaultType sub-payload inside SetConfigMessage, ConfigResponseMessage, FaultControlMessage. '
                            'Inputs per key: minimal all-zero encoding, default object, then single-byte, 16/32/64-bit boundary words (sentinels, 1 ns stamps, '
                            '10^9 ns, NaN/inf/denormal patterns, enum values known and unknown) at every position, count bytes 0..N with the announced tail '
                            'appended, random multi-field mutations. A case is distinct by (key, input bytes). Offsets %s, caller-supplied bytearray and '
                            'library-allocated buffer.' % ('0..16' if ctx.thorough else '{0,1,3,8}'))
    ctx.coverage['exhaustive'] = False
    ctx.trusted_base += ['harness/py/c01_laws.py (law evaluation, canonical field comparison: floats by bit pattern with all NaNs equal, enums by value, '
                         'underscore-prefixed attributes and MessageHeader.reserved (padding, zeroed by pack by design) ignored)']


def replay(ctx, rec):
    case = rec.get('case', rec)
    rc, so, se = _impl(['one', case['key'], case['hex']])
    print('IMPL (laws of the property evaluated on the implementation = SPEC comparison):')
    print(so)
    if se.strip():
        print(se[-2000:])
    return 0
