"""C01 — message payloads survive serialize/parse unchanged, with consistent sizes."""
import glob, json, os, struct, subprocess
from concurrent.futures import ThreadPoolExecutor
import vf
from translators import gen_c01

LEVEL = 'proof'
HARNESS = os.path.join(vf.VERIF, 'harness/py/c01_laws.py')
NOISE = ('leap', 'Leap')


DESC_JSON = os.path.join(vf.BUILD, 'c01', 'descriptions.json')


def _impl(args, env_extra=None, timeout=3000):
    env = dict(vf.IMPL_ENV, C01_DESC=DESC_JSON)
    env.update(env_extra or {})
    p = subprocess.run([vf.PY, HARNESS] + args, capture_output=True, text=True, timeout=timeout, env=env)
    err = '\n'.join(l for l in p.stderr.split('\n') if l and not any(n in l for n in NOISE))
    return p.returncode, p.stdout, err


def load_corpus():
    out = {}
    for f in sorted(glob.glob(os.path.join(vf.VERIF, 'corpus', 'C01', '*.json'))):
        for e in json.load(open(f)):
            out.setdefault(e['key'], []).append(e['hex'])
    return out


def run_laws(ctx, keys, seed):
    """Shard the keys over NCPU harness processes; returns {key: result}."""
    corpus = load_corpus()
    k = min(vf.NCPU, len(keys))
    # heavy (container sub-payload) keys are many and small, message classes fewer and larger: deal round-robin
    shards = [keys[i::k] for i in range(k)]
    tier = 'thorough' if ctx.thorough else 'quick'

    def one(sh):
        rc, so, se = _impl(['run', str(seed), tier] + sh, {'C01_CORPUS': json.dumps({x: corpus[x] for x in sh if x in corpus})})
        res = {}
        for line in so.split('\n'):
            if line.startswith('{'):
                d = json.loads(line)
                res[d['key']] = d
        missing = [x for x in sh if x not in res]
        if missing:
            raise RuntimeError('IMPL harness produced no result for %s (rc=%s): %s' % (missing[:3], rc, se[-1500:]))
        return res
    def cross():
        rc, so, se = _impl(['cross', str(seed), tier])
        lines = [l for l in so.split('\n') if l.startswith('{')]
        if not lines:
            raise RuntimeError('IMPL cross-object run produced no result (rc=%s): %s' % (rc, se[-1500:]))
        return json.loads(lines[-1])
    out = {}
    with ThreadPoolExecutor(k + 1) as ex:
        fc = ex.submit(cross)
        for r in ex.map(one, shards):
            out.update(r)
        out['<cross-object>'] = fc.result()
    return out


def signature(key, law, detail):
    cls, _, sub = key.partition('[')
    sig = {'class': cls, 'law': law}
    if sub:
        sig['sub'] = sub.rstrip(']')
    if detail:
        sig['detail'] = detail
    return sig


def floor(ctx, keys, seed):
    """IMPL vs SPEC: the laws of the property evaluated on the implementation for every class and input."""
    res = run_laws(ctx, keys, seed)
    cross = res.pop('<cross-object>')
    ctx.count('cross-object:objects-kept', cross['objects'])
    ctx.count('cross-object:rechecks', cross['rechecks'])
    ctx.evals += cross['rechecks']
    ctx.coverage['cross_object'] = ('%d classes parsed and serialised interleaved over %d epochs (class order reshuffled each epoch); all %d objects are kept and after every batch '
                                    'of another class their field values and pack() bytes must be unchanged; no two kept objects may share a mutable sub-object '
                                    '(Timestamp, MeasurementDetails, list, array, bytearray)' % (cross['classes'], cross['epochs'], cross['objects']))
    for vk, v in sorted(cross['violations'].items()):
        ctx.count('law-failures:' + v['law'], v['count'])
        ctx.violation(signature(v['key'], v['law'], v['detail']), '%s   [first: %s %s; then: %s %s]' % (v['text'], v['key'], v['hex'][:64], v['then_key'], v['then_hex'][:64]),
                      {'key': v['key'], 'hex': v['hex'], 'then_key': v['then_key'], 'then_hex': v['then_hex'], 'law': v['law'], 'detail': v['detail'], 'impl': v['text']})
    never_parsed, law_only = [], []
    for key in keys:
        d = res[key]
        if 'harness_error' in d:
            raise RuntimeError('IMPL harness failed on %s: %s' % (key, d['harness_error']))
        ctx.count('inputs', d['evals'])
        ctx.count('inputs-parsed', d['parsed'])
        ctx.count('inputs-all-laws-hold', d['laws_ok'])
        ctx.count('explicit-refusals(container content not understood)', d['refusals'])
        for fn_, ex_ in d.get('forms_refused', {}).items():
            ctx.count('buffer-form-refused:%s:%s' % (fn_, ex_))
        if d.get('nonzero_padding'):
            ctx.count('inputs-with-nonzero-reserved-attribute:' + key, d['nonzero_padding'])
        for pk, c in d['parse_fail'].items():
            ctx.count('parse-failure:' + pk.split(':', 1)[1], c)
        for c in d['cases']:
            ctx.case((key, c['hex']), nontrivial=True)
        ctx.evals += d['evals'] - len(d['cases'])
        if d['parsed'] == 0:
            never_parsed.append(key)
        if d.get('seed_fail'):
            sf = d['seed_fail']
            ctx.violation(signature(key, 'registered-type-does-not-parse', sf['exc']),
                          '%s: the all-zero encoding of this registered sub-payload type does not parse: %s: %s' % (key, sf['exc'], sf['msg']),
                          {'key': key, 'hex': sf['hex'], 'law': 'registered-type-does-not-parse', 'impl': sf})
        for vk, v in sorted(d['violations'].items()):
            ctx.count('law-failures:' + v['law'], v['count'])
            ctx.violation(signature(key, v['law'], v['detail']),
                          '%s: %s   [input %s%s, %d of %d parsed inputs]' % (key, v['text'].replace('\n', ' '), v['hex'][:96], '…' if len(v['hex']) > 96 else '', v['count'], d['parsed']),
                          {'key': key, 'hex': v['hex'], 'law': v['law'], 'detail': v['detail'], 'impl': v['text']})
    kinds = {}
    for key in keys:
        for pk in res[key]['parse_fail']:
            kinds.setdefault(pk.split(':', 1)[1], set()).add(key.split('[')[0])
    explicit = {'ValueError': 'strict enum value not recognised', 'KeyError': 'container: unknown config / fault type', 'StreamError': 'construct: buffer too short',
                'error': 'struct: buffer too short', 'StringError': 'construct: bytes are not UTF-8', 'UnicodeDecodeError': 'bytes are not UTF-8'}
    ctx.coverage['parse_failures'] = {k: {'classes': sorted(v), 'explicit_refusal': explicit.get(k, False)} for k, v in sorted(kinds.items())}
    unexpected = sorted(k for k in kinds if k not in explicit)
    if unexpected:
        ctx.notes.append('parse failures that are not explicit refusals (outside the property: it speaks of inputs that parse): %s' % ', '.join('%s in %s' % (k, sorted(kinds[k])) for k in unexpected))
    if never_parsed:
        ctx.notes.append('keys for which no generated input parsed (property vacuous there): %s' % ', '.join(never_parsed))
    ctx.coverage['greedy_layouts'] = sorted(k for k in keys if res[k].get('greedy'))
    return res


# ------------------------------------------------------------------------------------------------
# correspondence IMPL <-> extracted MODEL
# ------------------------------------------------------------------------------------------------

def flat(c, path='', out=None):
    if out is None:
        out = {}
    if isinstance(c, dict):
        for k, v in c.items():
            flat(v, path + '.' + k, out)
    elif isinstance(c, list):
        out[path + '.len'] = len(c)
        for i, v in enumerate(c):
            flat(v, '%s[%d]' % (path, i), out)
    else:
        out[path] = c
        if isinstance(c, str) and c.startswith('b:'):
            out[path + '.len'] = (len(c) - 2) // 2
    return out


def _hx(t):
    return -int(t[1:], 16) if t.startswith('-') else int(t, 16)


def model_token(it, t):
    """model field value (text) -> comparable token"""
    if t == 'nan':
        return 'nan'
    z = _hx(t)
    k = it['conv'][0]
    if k == 'f32':
        return 'nan' if (z >> 23) & 0xFF == 0xFF and z & 0x7FFFFF else z
    if k in ('f64', 'ts'):
        return 'nan' if (z >> 52) & 0x7FF == 0x7FF and z & ((1 << 52) - 1) else z
    return z


def impl_token(it, c):
    """implementation field value (canonical) -> the token the model should have produced"""
    k = it['conv'][0]
    if c is None:
        return ('missing',)
    if k == 'int':
        return c if isinstance(c, int) else ('not-an-int', c)
    if k == 'iscaled':
        m = it['conv'][1]
        return c // m if isinstance(c, int) and c % m == 0 else ('not-a-multiple', c)
    if c == 'nan':
        return 'nan'
    if not (isinstance(c, str) and c.startswith('f:')):
        return ('not-a-float', c)
    bits = int(c[2:], 16)
    x = struct.unpack('>d', bytes.fromhex(c[2:]))[0]
    if k in ('f64', 'ts'):
        return bits
    if k == 'f32':
        try:
            b = struct.unpack('<I', struct.pack('<f', x))[0]
        except OverflowError:
            return ('not-a-binary32', c)
        return b if struct.unpack('<f', struct.pack('<I', b))[0] == x else ('not-a-binary32', c)
    if k == 'scaled':
        sc = it['conv'][1]
        z = int(round(x / sc))
        return z if z * sc == x else ('not-on-the-scale-grid', c)
    return ('conv?', k)


def parse_env(text):
    out = {}
    if not text:
        return out
    for ent in text.split(';'):
        i, _, v = ent.partition('=')
        out[int(i)] = v
    return out


def _rec(txt):
    return dict((int(a.partition('=')[0]), a.partition('=')[2]) for a in txt.split(',') if a)


def _str_token(c):
    """implementation str -> the hex of its UTF-8 bytes (what the model carries)"""
    if isinstance(c, str) and c.startswith('s:'):
        try:
            return 's:' + c[2:].encode('utf-8').hex()
        except UnicodeEncodeError:
            return ('unencodable', c)
    return ('not-a-str', c)


def cmp_record(items, rv, fl, pathfn):
    """first difference between one decoded record of the model and the implementation's attributes"""
    for b in items:
        if b['t'] == 'str':
            pth = pathfn(b)
            if pth is not None and rv.get(b['id']) != _str_token(fl.get(pth)):
                return '%s: model %r, implementation %r' % (pth, rv.get(b['id']), fl.get(pth))
        elif b['t'] == 'field':
            pth = pathfn(b)
            if pth is None:
                continue
            mt, im = model_token(b, rv.get(b['id'], '?')), impl_token(b, fl.get(pth))
            if mt != im:
                return '%s: model %r, implementation %r (%r)' % (pth, mt, im, fl.get(pth))
    return None


def _abs_path(b):
    return b['paths'][0] if b.get('paths') else None


def compare_env(desc, envtext, fl):
    """first difference between the model's decoded values and the implementation's attributes, or None"""
    env = parse_env(envtext)
    for it in desc['items']:
        if it['t'] == 'field':
            mt = model_token(it, env.get(it['id'], '?'))
            if it.get('is_count'):
                for lp in it.get('len_paths', []):
                    if fl.get(lp) != mt:
                        return '%s: model count %r, implementation length %r' % (lp, mt, fl.get(lp))
                for pth in it.get('paths', []):
                    if pth in fl and fl[pth] != mt:
                        return '%s: model %r, implementation %r' % (pth, mt, fl[pth])
                continue
            if not it.get('paths'):
                continue            # no attribute of the object mirrors this wire field (a tag implied by the object's type)
            pth = it['paths'][0]
            im = impl_token(it, fl.get(pth))
            if im != mt:
                return '%s: model %r, implementation %r (%r)' % (pth, mt, im, fl.get(pth))
        elif it['t'] == 'bytes':
            mv = env.get(it['id'])
            iv = fl.get(it['path'])
            if it.get('mode', ['raw'])[0] == 'str':
                iv = _str_token(iv)
                iv = 'b:' + iv[2:] if isinstance(iv, str) else iv
            if mv != iv:
                return '%s: model %r, implementation %r' % (it['path'], mv, iv)
        elif it['t'] == 'counted':
            txt = env.get(it['id'], '')
            recs = [r for r in txt[3:-1].split('|')] if txt.startswith('r:[') and len(txt) > 4 else []
            if fl.get(it['path'] + '.len') != len(recs):
                return '%s: model %d records, implementation %r' % (it['path'], len(recs), fl.get(it['path'] + '.len'))
            for j, r in enumerate(recs):
                d = cmp_record(it['body'], _rec(r), fl, lambda b, j=j: '%s[%d]%s' % (it['path'], j, b['paths'][0]))
                if d:
                    return d
        elif it['t'] == 'switch':
            txt = env.get(it['id'], '')
            tag = _hx(env.get(it['tag_id'], '0'))
            case = it['cases'].get(str(tag))
            if case is None:
                if txt != 'r:[]':
                    return '%s: model %r for a tag without a case' % (it['name'], txt)
                if it.get('absent_path') and fl.get(it['absent_path'], 'missing') is not None:
                    return '%s: model absent, implementation %r' % (it['absent_path'], fl.get(it['absent_path']))
            else:
                if not (txt.startswith('r:[') and '|' not in txt):
                    return '%s: model %r' % (it['name'], txt)
                d = cmp_record(case['items'], _rec(txt[3:-1]), fl, _abs_path)
                if d:
                    return d
        elif it['t'] == 'tagged':
            txt = env.get(it['id'], '')
            if txt == 'opaque':
                if fl.get(it['obj_path'], 'missing') is not None:
                    return '%s: model says not understood, implementation has %r' % (it['obj_path'], fl.get(it['obj_path']))
                continue
            if not txt.startswith('t:['):
                return '%s: model %r' % (it['name'], txt)
            h, _, rest = txt[3:].partition('][')
            o, _, sz = rest.partition(']:')
            tag = _hx(env.get(it['tag_id'], '0'))
            rh, ro = _rec(h), _rec(o)
            if it['sub'] and tag == it['sub']['tag_value']:
                d = cmp_record(it['sub']['hdr'], rh, fl, _abs_path)
                if d:
                    return d
                case = it['sub']['cases'].get(str(_hx(rh.get(it['sub']['sid_id'], '0'))))
            else:
                case = it['cases'].get(str(tag))
            if case is None:
                return '%s: model decodes tag %d for which the description has no case' % (it['name'], tag)
            skipped = bool(it['skip']) and (_hx(env.get(it['skip_id'], '0')) & it['skip'][1]) != 0
            if skipped:
                if not any(k.startswith(it['obj_path'] + '.' + case['name']) or k == it['obj_path'] + '.' + case['name'] for k in fl) and case['items']:
                    return '%s: revert-to-default: implementation object is not a %s' % (it['obj_path'], case['name'])
                continue
            d = cmp_record(case['items'], ro, fl, _abs_path)
            if d:
                return d
    return None


def build_model():
    """the extracted runner; rebuilt only when one of its sources is newer (extraction depends on Models/ and Generated/ only)"""
    exe = os.path.join(vf.BUILD, 'ocaml', 'c01', 'c01.exe')
    srcs = [os.path.join(vf.THEORIES, x) for x in ('Extract/C01.v', 'Models/CodecM.v', 'Models/CodecTs.v', 'Generated/LayoutPy.v', 'Generated/CodecConsts.v')]
    srcs += [os.path.join(vf.VERIF, 'ocaml', 'c01_driver.ml'), os.path.join(vf.VERIF, 'ocaml', 'conv.ml')]
    try:
        if os.path.getmtime(exe) > max(os.path.getmtime(x) for x in srcs):
            return exe
    except OSError:
        pass
    return vf.build_extracted('c01', 'C01', 'c01_driver.ml')


def run_model(ctx, exe, lines):
    """Run the extracted model on every line; a line the runner does not answer in time (or on which it dies) is
    reported for that input ('TIMEOUT' / 'CRASH') instead of failing the whole run.  Very long inputs run one per process."""
    outs = [None] * len(lines)
    small = [i for i, l in enumerate(lines) if len(l) <= 40000]
    big = [i for i, l in enumerate(lines) if len(l) > 40000]

    def single(i, timeout):
        try:
            rc, out, err = vf.run_lines(exe, [lines[i]], timeout=timeout)
            return out[0] if rc == 0 and len(out) == 1 else 'CRASH'
        except RuntimeError:
            return 'TIMEOUT'
    try:
        for i, o in zip(small, vf.run_parallel(exe, [lines[i] for i in small], timeout=900)):
            outs[i] = o
    except RuntimeError:
        # some shard failed: redo in chunks, then line by line inside a failing chunk
        chunks = [small[j:j + 100] for j in range(0, len(small), 100)]

        def chunk(ch):
            try:
                rc, out, err = vf.run_lines(exe, [lines[i] for i in ch], timeout=120)
                if rc == 0 and len(out) == len(ch):
                    return out
            except RuntimeError:
                pass
            return [single(i, 30) for i in ch]
        with ThreadPoolExecutor(vf.NCPU) as ex:
            for ch, out in zip(chunks, ex.map(chunk, chunks)):
                for i, o in zip(ch, out):
                    outs[i] = o
    with ThreadPoolExecutor(max(2, vf.NCPU // 2)) as ex:
        for i, o in zip(big, ex.map(lambda i: single(i, 120), big)):
            outs[i] = o
    return outs


def correspondence(ctx, res, gen):
    """every evaluated input of every described class: IMPL unpack/pack/calcsize vs MODEL decode/encode/sizeof"""
    model = build_model()
    descs = gen['descriptions']
    lines, meta = [], []
    for key, r in res.items():
        d = descs.get(key.split('[')[0])
        if d is None:
            continue
        for c in r['cases']:
            lines.append('D %d %s' % (d['index'], c['hex'] or '-')); meta.append((key, c, True))
        for f in r['fails']:
            lines.append('D %d %s' % (d['index'], f['hex'] or '-')); meta.append((key, f, False))
    outs = run_model(ctx, model, lines)
    nbad, late = 0, []
    for (key, c, parsed), ln, out in zip(meta, lines, outs):
        d = descs[key.split('[')[0]]
        ctx.count('correspondence:' + ('parsed' if parsed else 'rejected'))
        case = {'key': key, 'hex': c['hex'], 'model': out[:600]}
        if out in ('TIMEOUT', 'CRASH'):
            ctx.count('correspondence:model-' + out.lower())
            late.append('%s (%d bytes): %s' % (key, len(c['hex']) // 2, out))
            continue
        if not parsed:
            if out != 'FAIL':
                # the struct module wants the whole fixed part present even when a count makes the parse fail earlier; both refuse
                nbad += 1
                ctx.broken_correspondence('%s: the implementation refuses to parse (%s) an input the model decodes' % (key, c['exc']), case)
            continue
        if not out.startswith('OK '):
            nbad += 1
            ctx.broken_correspondence('%s: the model does not decode an input the implementation parses' % key, dict(case, impl_n=c['n']))
            continue
        f = dict(x.split('=', 1) for x in out[3:].split(' ', 4))
        ctx.count('correspondence:canonical-input(stamps in domain, lengths canonical)' if f['dom'] == '1' else 'correspondence:non-canonical-input')
        diffs = []
        if int(f['n']) != c['n']:
            diffs.append('bytes consumed: model %s, implementation %s' % (f['n'], c['n']))
        ip = c.get('pack')
        if isinstance(ip, str) and not ip.startswith('raise') and ip != 'refusal':
            mp = '' if f['pack'] == '-' else f['pack']
            if mp != ip:
                diffs.append('pack(): model %s, implementation %s' % (mp[:80], ip[:80]))
        elif isinstance(ip, str) and (ip.startswith('raise') or ip == 'refusal') and f['pack'] != 'FAIL':
            diffs.append('pack(): implementation %s, model writes %s' % ('refuses' if ip == 'refusal' else 'raises', f['pack'][:80]))
        if isinstance(c.get('calcsize'), int) and f['size'] != 'FAIL' and int(f['size']) != c['calcsize'] and c['ok']:
            diffs.append('calcsize: model %s, implementation %s' % (f['size'], c['calcsize']))
        dv = compare_env(d, f.get('env', ''), flat(c['fields']))
        if dv:
            diffs.append('field ' + dv)
        if diffs:
            nbad += 1
            ctx.broken_correspondence('%s: model and implementation differ on input %s: %s' % (key, c['hex'][:80], '; '.join(diffs)), dict(case, diffs=diffs))
    ctx.coverage['correspondence_mismatches'] = nbad
    if late:
        ctx.notes.append('inputs the extracted model did not answer within the per-input limit (law evaluation on the implementation still covers them): ' + '; '.join(late[:20]))
    return nbad


# ------------------------------------------------------------------------------------------------
# Timestamp adapter: IMPL vs integer model vs primitive-float model, and the projection law, evaluated in coqc
# ------------------------------------------------------------------------------------------------

def ts_cases(ctx):
    r = ctx.rng
    edge_ns = [0, 1, 2, 499999999, 500000000, 500000001, 999999998, 999999999]
    nsec, nrand = (8, 240) if ctx.thorough else (2, 10)
    cases = [(529378, 273878287), (0, 0)]
    for k in range(0, 32):
        lo, hi = 1 << k, (1 << (k + 1)) - 1
        secs = {lo, min(lo + 1, hi), hi} | {r.randrange(lo, hi + 1) for _ in range(nsec)}
        for sec in sorted(secs):
            for ns in edge_ns + [r.randrange(10 ** 9) for _ in range(nrand)]:
                cases.append((sec, ns))
    # outside the domain of the law: sentinels, ns >= 10^9, seconds reaching 2^32-1
    out = [(0xFFFFFFFF, 0), (0, 0xFFFFFFFF), (0xFFFFFFFF, 0xFFFFFFFF), (0xFFFFFFFF, 5), (0, 3221225472), (4294967294, 999999999), (4294967294, 1),
           (7, 4294967294), (4294967290, 4294967290), (4294967293, 4294967294), (123, 1000000000), (123, 1999999999)]
    out += [(r.randrange(1 << 32), r.randrange(10 ** 9, 1 << 32)) for _ in range(60)]
    return list(dict.fromkeys(cases + out))


def ts_evaluation(ctx):
    cases = ts_cases(ctx)
    env = dict(vf.IMPL_ENV)
    p = subprocess.run([vf.PY, HARNESS, 'ts'], input=json.dumps(cases), capture_output=True, text=True, timeout=1200, env=env)
    lines = [l for l in p.stdout.split('\n') if l.startswith('[')]
    if p.returncode != 0 or not lines:
        raise RuntimeError('timestamp IMPL run failed: ' + p.stderr[-1500:])
    impl = json.loads(lines[-1])
    for (sec, ns), (bits, es, en, same) in zip(cases, impl):
        ctx.case(('ts', sec, ns)); ctx.count('timestamp-grid')
        if not same:
            ctx.violation({'class': 'TimestampAdapter', 'law': 'adapter-vs-class'},
                          'TimestampConstruct parse/build and Timestamp.unpack/pack differ on stamp (%d s, %d ns)' % (sec, ns),
                          {'key': 'Timestamp', 'hex': struct.pack('<II', sec, ns).hex()})
    hdr = ('From Coq Require Import ZArith List Bool.\nFrom FEC Require Import Models.CodecTs Models.TimestampF.\nImport ListNotations.\nOpen Scope Z_scope.\n'
           'Definition c (a b d e f : Z) : TsF_case := {| tc_sec := a; tc_ns := b; tc_dec_bits := d; tc_enc_sec := e; tc_enc_ns := f |}.\n')
    tail = ('Definition ts_disagree := map (fun x => (tc_sec x, tc_ns x)) (filter (fun x => negb (TsF_case_agree x)) ts_cases).\n'
            'Definition ts_not_projecting := map (fun x => (tc_sec x, tc_ns x)) (filter (fun x => negb (TsF_case_projects x)) ts_cases).\n')
    lemma = 'Lemma ts_cases_evaluation : ts_disagree = [] /\\ ts_not_projecting = [].\nProof. vm_compute. split; reflexivity. Qed.\n'
    rows = ['c %d %d (%d) (%d) (%d)' % (sec, ns, bits, es, en) for (sec, ns), (bits, es, en, _) in zip(cases, impl)]
    SH = 2500
    shards = [rows[i:i + SH] for i in range(0, len(rows), SH)]

    def one(ix):
        body = hdr + 'Definition ts_cases : list TsF_case := [\n' + ';\n'.join(shards[ix]) + '].\n' + tail
        src = os.path.join(ctx.tmp, 'CodecTsCases%d.v' % ix)
        open(src, 'w').write(body + lemma)
        cmd = 'timeout 1500 coqc -R theories FEC -o %s %s' % (src + 'o', src)
        rc, so, se = vf.sh(cmd, cwd=vf.COQ, timeout=1560)
        if rc != 0:
            # evaluate again, this time printing the offending stamps
            open(src, 'w').write(body + 'Eval vm_compute in (length ts_cases, ts_disagree, ts_not_projecting).\n')
            rc2, so, se2 = vf.sh(cmd, cwd=vf.COQ, timeout=1560)
            se = se + se2
        return rc, so, se
    with ThreadPoolExecutor(min(vf.NCPU, len(shards))) as ex:
        results = list(ex.map(one, range(len(shards))))
    ok = all(rc == 0 for rc, _, _ in results)
    so = '\n'.join(x[1] for x in results if x[0] != 0)
    se = '\n'.join(x[2] for x in results if x[0] != 0)
    ctx.obligation('timestamp grid EVALUATION (correspondence of the timestamp models): on %d generated stamps implementation = integer model = '
                   'primitive-float model for decode and re-encode (and, redundantly with theorem C01_ts_projection, every stamp of the domain projects)'
                   % len(cases), ok, 'evaluation', (so + se)[-400:])
    if not ok:
        import re
        dis, npj = [], []
        for m in re.finditer(r'= \((\d+)%nat,\s*(\[.*?\]),\s*(\[.*?\])\)', so, re.S):
            dis += re.findall(r'\((\d+),\s*(\d+)\)', m.group(2))
            npj += re.findall(r'\((\d+),\s*(\d+)\)', m.group(3))
        for sec, ns in npj[:3]:
            ctx.violation({'class': 'Timestamp', 'law': 'reparse-values-differ', 'detail': 'seconds', 'source': 'timestamp-grid'},
                          'stamp (%s s, %s ns) of the domain does not satisfy the projection law' % (sec, ns),
                          {'key': 'Timestamp', 'hex': struct.pack('<II', int(sec), int(ns)).hex()})
        if dis or not npj:
            sec, ns = dis[0] if dis else ('?', '?')
            ctx.broken_correspondence('timestamp models and implementation differ on stamp (%s s, %s ns)' % (sec, ns) if dis else
                                      'the timestamp grid could not be evaluated in coqc',
                                      {'key': 'Timestamp', 'hex': struct.pack('<II', int(sec), int(ns)).hex() if dis else '', 'log': (so + se)[-1500:]})
    ctx.coverage['timestamp_grid'] = ('%d stamps: per binade of the seconds field 2^k..2^(k+1)-1, k = 0..31: both ends, the next value and %d random seconds, each with the '
                                      'nanosecond values 0, 1, 2, 499999999, 500000000, 500000001, 999999998, 999999999 and %d random ones; plus sentinel / ns >= 10^9 / '
                                      'overflowing stamps outside the domain of the law' % (len(cases), 8 if ctx.thorough else 2, 240 if ctx.thorough else 10))
    return ok


def run(ctx):
    # 1. regenerate constants / descriptions (fail closed: a translator that no longer understands the source is a
    #    broken obligation; the failing-input search below still runs, it does not need the model)
    gen = None
    try:
        gen = gen_c01.generate()
        ctx.obligation('translators/gen_c01.py understands the source (Timestamp code matches the transcribed models; descriptions derived)', True, 'translator')
    except Exception as e:
        ctx.obligation('translators/gen_c01.py understands the source (Timestamp code matches the transcribed models; descriptions derived)', False, 'translator', str(e)[:1500])
        ctx.pending_broken = {'kind': 'translator', 'what': 'the C01 translator no longer recognises the source: %s' % str(e)[:600], 'trace': str(e)[:3000]}
        try:
            gen = json.load(open(DESC_JSON))      # descriptions of the previous run: good enough to steer input generation
            gen_stale = True
        except Exception:
            gen = None
    stale = gen is None or getattr(ctx, 'pending_broken', None) is not None
    ctx.log('descriptions generated' if not stale else 'translator failed; continuing with the law evaluation')
    if gen is not None:
        ctx.coverage['described_classes'] = sorted(gen['descriptions'])
        ctx.coverage['law_only_classes'] = gen['inexpressible']
        ctx.coverage['container_cases_described'] = {k: len(next(i for i in d['items'] if i['t'] == 'tagged')['cases']) + len((next(i for i in d['items'] if i['t'] == 'tagged')['sub'] or {'cases': {}})['cases'])
                                                      for k, d in gen['descriptions'].items() if any(i['t'] == 'tagged' for i in d['items'])}
    # 2. proofs
    if not stale:
        if not ctx.coq(['theories/Models/TimestampF.vo']):
            ctx.broken_proof()
        elif ctx.thorough and not ctx.coqchk():
            ctx.broken_proof('coqchk does not accept the compiled development')
        ctx.log('coq done')
    seed = ctx.rng.randrange(1 << 30)
    if not stale:
        try:
            ts_evaluation(ctx)
        except Exception as e:
            ctx.obligation('timestamp grid evaluation ran', False, 'evaluation', repr(e)[:500])
            if not getattr(ctx, 'pending_broken', None):
                ctx.pending_broken = {'kind': 'machinery', 'what': 'timestamp grid evaluation failed: %r' % (e,)}
        ctx.log('timestamp grid done')
    rc, so, se = _impl(['list'])
    if rc != 0 or not so.strip().startswith('['):
        raise RuntimeError('cannot enumerate payload classes: ' + se[-1500:])
    keys = json.loads(so.strip().split('\n')[-1])
    ctx.coverage['classes'] = [k for k in keys if '[' not in k]
    ctx.coverage['container_subpayloads'] = [k for k in keys if '[' in k]
    res = floor(ctx, keys, seed)
    ctx.log('laws done')
    if not stale:
        correspondence(ctx, res, gen)
        ctx.log('correspondence done')
    ctx.sample({k: {'inputs': res[k]['evals'], 'parsed': res[k]['parsed'], 'parse_fail': res[k]['parse_fail']} for k in list(res)[:6]})
    ctx.coverage['rule'] = ('every class registered in MessagePayload.message_type_to_class + MessageHeader, Timestamp, MeasurementDetails, SatelliteInfo + one key per '
                            'registered ConfigType / InterfaceConfigType / FaultType sub-payload inside SetConfigMessage, ConfigResponseMessage, FaultControlMessage. '
                            'Inputs per key: minimal all-zero encoding, default object, then single-byte, 16/32/64-bit boundary words (sentinels, 1 ns stamps, '
                            '10^9 ns, NaN/inf/denormal patterns, enum values known and unknown) at every position, count bytes 0..N with the announced tail '
                            'appended (sizes 0, 1, 255, 256, 300, 65535, 65536, 70000 as far as the count field allows), unknown values in every lenient enum field, '
                            'every event type with the rewritten preamble, containers with error / none / header-only content, random multi-field mutations. '
                            'Per input also: unpack from bytes / bytearray / memoryview / numpy uint8 buffers at two offsets (then the buffer is cleared), the same object '
                            'reused after another (possibly refused) parse, explicit message_version, unpack options, numpy errstate raise, earlier returned buffers. '
                            'A case is distinct by (key, input bytes). Offsets %s, caller-supplied bytearray and library-allocated buffer.' % ('0..16' if ctx.thorough else '{0,1,3,8}'))
    ctx.coverage['exhaustive'] = False
    ctx.trusted_base += ['harness/py/c01_laws.py (law evaluation, canonical field comparison: floats by bit pattern with all NaNs equal, enums by value, '
                         'underscore-prefixed attributes and MessageHeader.reserved (padding, zeroed by pack by design) ignored; cross-object stage: objects kept '
                         'alive across interleaved parses of all classes, identity-based aliasing test)']


def replay(ctx, rec):
    case = rec.get('case', rec.get('detail', {}).get('case', rec))
    if 'key' not in case or not case.get('hex') and case.get('hex') != '':
        print(json.dumps(rec, indent=1)[:4000])
        return 0
    if case.get('then_key'):
        rc, so, se = _impl(['cross-one', case['key'], case['hex'], case['then_key'], case['then_hex']])
        print('IMPL + SPEC (an object parsed first must not change when another message is parsed and serialised afterwards):')
        print(so)
        return 0
    rc, so, se = _impl(['one', case['key'], case['hex']])
    print('IMPL + SPEC (the laws of the property evaluated on the implementation; "viol" lists the laws that fail):')
    print(so)
    if se.strip():
        print(se[-2000:])
    try:
        gen = json.load(open(DESC_JSON))
        d = gen['descriptions'].get(case['key'])
        if d is None:
            print('MODEL: no wire description for %s (law evaluation only)' % case['key'])
        else:
            print('MODEL (extracted decode/encode/sizeof, description #%d):' % d['index'])
            print(vf.run_lines(build_model(), ['D %d %s' % (d['index'], case['hex'] or '-')])[1])
    except Exception as e:
        print('MODEL: not available (%r)' % (e,))
    return 0
