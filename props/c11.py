"""C11 — Log reader is a correct cursor over the filtered list after any history."""
import itertools, json, os, sys
import vf
from translators import gen_c10
sys.path.insert(0, os.path.join(vf.VERIF, 'harness', 'py'))
import c10_check as K

LEVEL = 'proof'
CORPUS = os.path.join(vf.VERIF, 'corpus', 'C11')
FLAGS = [1, 1, 0, 1, 1]
E, P, G = K.EVENT, K.POSE, K.GNSS_INFO

BASE_LOGS = [
    # E P1 E P2 E P3 E U   (times 1, 2, 3 s; two source ids)
    [['m', E, 0, None], ['m', P, 0, 8], ['m', E, 1, None], ['m', P, 0, 16], ['m', E, 0, None], ['m', P, 1, 24], ['m', E, 0, None], ['m', K.UNK1, 0, None]],
    # junk between messages, fractional times, an invalid-P1 pose, a second timed type
    [['j', '31323334'], ['m', P, 0, 84], ['m', P, 0, None], ['j', '2e3133'], ['m', G, 0, 92], ['m', E, 0, None], ['m', P, 0, 100], ['j', '00'], ['m', G, 0, 111], ['m', E, 0, None]],
    # starts with untimed messages, repeated times
    [['m', E, 0, None], ['m', K.VERSION, 0, None], ['m', P, 0, 800], ['m', P, 0, 800], ['m', E, 0, None], ['m', P, 0, 808]],
]


# all eight types (incl. type 0), several messages of each, two source ids
RICH_LOG = [['m', K.ALL_TYPES[i % len(K.ALL_TYPES)], i % 2, (80 + 4 * i) if K.ALL_TYPES[i % len(K.ALL_TYPES)] in K.TIMED else None] for i in range(17)]


def alphabet(spec, rng=None, size=10):
    """~10 operations tailored to the log: every kind of the property's list is present"""
    ms = [it for it in spec if it[0] == 'm']
    ts = sorted({m[3] for m in ms if m[3] is not None})
    n = len(ms)
    mid = ts[len(ts) // 2] if ts else 80
    first = ts[0] if ts else 80
    types = sorted({m[1] for m in ms})
    timed_types = sorted({m[1] for m in ms if m[3] is not None}) or types[:1]
    untimed_types = [t for t in types if t not in timed_types] or types[-1:]
    ops = [['r'], ['r'], ['ft', timed_types[:1]], ['ft', untimed_types[:1] + timed_types[1:2]],
           ['fs', mid, None, None, False], ['fr', 0, max(8, mid - 8 * (first // 8) + 4), False, None],
           ['fi', 1, max(2, n - 2), None], ['u'], ['c'], ['w'], ['s', max(1, n // 2), True], ['s', max(1, n // 3), False], ['e']]
    return ops


def seek_family(spec, first):
    """read x k ; filter ; [read] ; seek(i, filtered | unfiltered) for EVERY i (so also the position the cursor is already at,
    the last returned message and their neighbours) ; change of filters ; reads to the end (appended by the caller)"""
    ms = [it for it in spec if it[0] == 'm']
    n = len(ms)
    al = alphabet(spec)
    filters = [al[2], al[3], al[4], al[5], al[6], ['u'], None]
    posts = [[['c']], [al[2]], [al[3], ['c']]]
    out = []
    for k in range(0, n + 1):
        for F in filters:
            for k2 in ((0, 1) if first else (0,)):
                for i in range(0, n + 1):
                    for filt in (True, False):
                        for post in posts:
                            out.append([['r']] * k + ([F] if F else []) + [['r']] * k2 + [['s', i, filt]] + post)
    return out


def history_families(spec, first):
    """histories the checklist names, for all small parameters (the caller appends reads to the end, then
    clear_filters + rewind + a full read, which must be the unfiltered read of a fresh reader):
      read to StopIteration; seek(i, filtered | unfiltered); reads
      clear; remove-untimed; clear      (the original index must not be modified in place)
      the same non-idempotent index slice two / three times in a row
      time range A; clear or unfiltered seek; time range B      (must be B, not A and B)
      filter; [reads]; seek_to_eof; clear; reads
      read x k; filter F1; filter F2 (no read in between); [clear]
      a filter that leaves nothing; clear / seek / eof / another filter"""
    ms = [it for it in spec if it[0] == 'm']
    n = len(ms)
    al = alphabet(spec)
    R = ['r']
    filters = [al[2], al[3], al[4], al[5], al[6], ['u'], ['fi', None, -1, None], ['fi', 2, 12, None]]
    ts = sorted({m[3] for m in ms if m[3] is not None}) or [80]
    lo, mid, hi = ts[0], ts[len(ts) // 2], ts[-1]
    ranges = [['fs', mid, None, None, 'ff'], ['fs', None, mid, None, 'tt'], ['fr', 0, max(8, mid - 8 * (lo // 8)), False, None],
              ['fr', lo + 1, hi, True, None], ['fr', mid, None, None, None, 't', 'f']]
    empties = [['ft', [K.ABSENT_TYPES[5]]], ['fs', hi + 800, None, None, 'ff'], ['fi', 3, 3, None], ['fi', n + 2, None, None]]
    out = []
    # read to the end, then seek
    for F in [None] + filters[:6]:
        for i in range(0, n + 1):
            for filt in (True, False):
                out.append(([F] if F else []) + [R] * (n + 1) + [['s', i, filt]] + [R] * 2)
    # clear / remove-untimed / clear, with reads before
    for k in (0, 1, 3, n):
        out += [[R] * k + [['c'], ['u'], ['c']], [R] * k + [['u'], ['c'], ['u']], [R] * k + [['u'], al[2], ['c']], [R] * k + [al[3], ['u'], ['c']]]
    # the same slice again
    for sl in (['fi', 2, 12, None], ['fi', None, -1, None], ['fi', 1, None, None], ['fi', None, None, 2], ['fi', -3, None, None], ['fi', 1, -1, None]):
        for k in (0, 1, 2, 4):
            for k2 in (0, 1):
                out.append([R] * k + [sl] + [R] * k2 + [sl])
                out.append([R] * k + [sl] + [R] * k2 + [sl] + [sl])
                out.append([R] * k + [sl] + [['c']] + [sl])
    # range A, clear / unfiltered seek, range B
    for A in ranges:
        for B in ranges:
            for k in (0, 2):
                out.append([A] + [R] * k + [['c'], B])
                out.append([A] + [R] * k + [['s', 0, False], B])
                out.append([A] + [R] * k + [['s', min(2, max(0, n - 1)), False], B])
    # seek_to_eof then clear
    for F in filters:
        for k in (0, 1, 3):
            out.append([F] + [R] * k + [['e'], ['c']])
            out.append([R] * k + [F, ['e'], ['c'], F])
    # two filter changes without a read in between
    for k in range(0, n + 1, 1 if first else 2):
        for F1 in filters:
            for F2 in filters + [['c']]:
                out.append([R] * k + [F1, F2])
                if first:
                    out.append([R] * k + [F1, F2, ['c']])
    # a filter that leaves nothing
    for Z in empties:
        for k in (0, 1, 3, n + 1):
            out += [[R] * k + [Z, ['c']], [R] * k + [Z, R, ['c']], [R] * k + [Z, ['s', 0, True], ['c']], [R] * k + [Z, ['s', 1, False]],
                    [R] * k + [Z, ['e'], ['c']], [R] * k + [Z, ['u'], ['c']], [R] * k + [Z, al[2], ['c']], [R] * k + [Z, ['w'], ['c']]]
    return out


def random_op(rng, spec):
    ms = [it for it in spec if it[0] == 'm']
    ts = sorted({m[3] for m in ms if m[3] is not None}) or [80]
    n = max(1, len(ms))
    types = sorted({m[1] for m in ms}) or [P]
    k = rng.choice(['r', 'r', 'r', 'r', 'ft', 'fs', 'fr', 'fi', 'u', 'c', 'w', 's', 's', 'e'])
    tpt = lambda: rng.choice(ts) + rng.choice([-9, -8, -1, 0, 0, 1, 4, 8, 16])
    if k == 'ft':
        u = rng.random()
        if u < 0.5:
            return ['ft', rng.sample(types, rng.randint(1, min(3, len(types)))) if rng.random() < 0.9 else [K.UNK2 + 5]]
        if u < 0.65 and all(t in K.CLASS_TYPES for t in types):
            return ['ft', rng.sample(types, rng.randint(1, len(types))), 'classes']
        # many requested types, most of them absent and spread over the 16-bit range, in every container form
        ts, form = K.type_requests(rng, types, sizes=[rng.choice([2, 5, 9, 13, 14, 15, 16, 18, 22, 27, 33])])[0]
        return ['ft', ts, form if form != 'mixed' else 'list']
    if k == 'fs':
        a, b = rng.choice([None, tpt()]), rng.choice([None, tpt()])
        if a is None and b is None:
            a = max(0, tpt())
        a = None if a is None else max(0, a); b = None if b is None else max(0, b)
        return ['fs', a, b, rng.choice([None, None, 'i', 'a', 'r']), rng.choice(['ff', 'ff', 'tt', 'ft', 'tf'])]
    if k == 'fr':
        # every way the API lets a TimeRange be built: absolute given or inferred, each end a float, a Timestamp or an
        # invalid Timestamp
        rs, re_ = rng.choice(['f', 'f', 't', 'x']), rng.choice(['f', 'f', 't', 'x'])
        given = rng.choice([True, False, None, None])
        absolute = given if given is not None else (rs in 'tx' or re_ in 'tx')
        base = 0 if absolute else 8 * (ts[0] // 8)
        a, b = rng.choice([None, max(0, tpt() - base)]), rng.choice([None, max(0, tpt() - base)])
        return ['fr', a, b, given, None if absolute or rng.random() < 0.7 else rng.choice([ts[0], ts[0] - ts[0] % 8, ts[0] + 3]), rs, re_]
    if k == 'fi':
        iv = lambda: rng.choice([None, rng.randint(-n - 1, n + 1)])
        return ['fi', iv(), iv(), rng.choice([None, None, 1, 2, 3, 0])]
    if k == 's':
        return ['s', rng.randint(-1, n + 1), rng.random() < 0.5]
    return [k]


def op_tokens(op):
    k = op[0]
    if k == 'ft':
        return 'ft ' + K.zl(op[1])
    if k == 'fs':
        return 'fs %s %s %s' % (K.zo(op[1]), K.zo(op[2]), op[3] or '-')
    if k == 'fr':
        r = K.normalise_range({'start': op[1], 'end': op[2], 'abs': op[3], 't0': op[4],
                               'rs': op[5] if len(op) > 5 else 'f', 're': op[6] if len(op) > 6 else 'f'})
        return 'fr %s %s %s %s' % (K.zo(r['start']), K.zo(r['end']), '1' if r['abs'] else '0', K.zo(r['t0']))
    if k == 'fi':
        return 'fi %s %s %s' % (K.zo(op[1]), K.zo(op[2]), K.zo(op[3]))
    if k == 's':
        return 's %d %d' % (op[1], 1 if op[2] else 0)
    return k


def parse_steps(line, data, by_off, with_priv):
    """'MSG tok @n,l | STOP @n,l | ...' -> list of (result, priv)"""
    if line.startswith('CERR'):
        return ('cerr', line.split()[1])
    out = []
    for part in [p.strip() for p in line.split('|')] if line.strip() else []:
        body, _, priv = part.rpartition('@')
        w = body.split()
        if w[0] == 'MSG':
            res = ['MSG', K.expected_pieces(w[1], data, by_off)[1]]
        elif w[0] == 'ERR':
            res = ['ERR', w[1]]
        else:
            res = [w[0]]
        out.append((res, [int(x) for x in priv.split(',')]))
    return ('ok', out)


class Evaluator:
    def __init__(self, ctx):
        self.ctx = ctx
        self.model = vf.build_extracted('c11', 'C11', 'c11_driver.ml')
        self.logs = {}
        self.n = 0

    def run(self, cases, tag, with_legacy=False):
        for c in cases:
            c['logkey'] = K.logkey(c['log'])
            if 'id' not in c:
                c['id'] = 'c%d' % self.n
                self.n += 1
        outs = K.run_impl('c11_impl.py', cases, self.ctx.tmp, tag)
        for o in outs.values():
            if 'msgs' in o:
                case = next(c for c in cases if c['id'] == o['id'])
                self.logs[case['logkey']] = {'msgs': o['msgs'], 'data': open(o['path'], 'rb').read()}
        ml, sl, ll = [], [], []
        for c in cases:
            lg = self.logs[c['logkey']]
            tail = ' '.join([K.file_tokens(lg['msgs'], len(lg['data'])), K.cfg_tokens(c.get('max_bytes'), c['flags']), K.zl(c.get('srcs')),
                             str(len(c['ops']))] + [op_tokens(o) for o in c['ops']])
            ml.append('M F ' + tail); sl.append('S F ' + tail); ll.append('M L ' + tail)
        m = vf.run_parallel(self.model, ml)
        s = vf.run_parallel(self.model, sl)
        l = vf.run_parallel(self.model, ll) if with_legacy else [None] * len(cases)
        recs = {}
        for c, a, b, d in zip(cases, m, s, l):
            lg = self.logs[c['logkey']]
            by_off = {x['off']: x for x in lg['msgs']}
            recs[c['id']] = {'impl': outs[c['id']], 'model': parse_steps(a, lg['data'], by_off, True), 'spec': parse_steps(b, lg['data'], by_off, False),
                             'legacy': parse_steps(d, lg['data'], by_off, True) if d is not None else None, 'log': lg}
        return recs


def res_offset(res):
    if res[0] != 'MSG':
        return None
    for t, v in res[1]:
        if t == 'O':
            return v
    return None


def judge(c, rec):
    out = []
    impl, spec, model = rec['impl'], rec['spec'], rec['model']
    if not impl['deterministic']:
        out.append(('violation', {'outcome': 'nondeterministic', 'class': 'two-runs-differ'}, 'the same script on two fresh readers gave different results'))
        return out
    run = impl['run']
    if 'cerr' in run or spec[0] != 'ok' or model[0] != 'ok':
        if 'cerr' in run:
            out.append(('violation', {'outcome': 'constructor-exception', 'class': run['cerr']}, 'constructor raised ' + run['cerr']))
        else:
            out.append(('correspondence', None, 'model/spec runner failed: %r %r' % (spec[0], model[0])))
        return out
    steps = run['steps']
    by_off = {m['off']: m for m in rec['log']['msgs']}
    if run.get('retained_same') is False or run.get('alias'):
        out.append(('violation', {'outcome': 'retained-results-differ', 'class': 'pieces-aliased-across-results', 'op': 'r', 'after': 'any'},
                    'messages kept by the caller are not what was returned: pieces sharing one object across results: %s; first difference (returned, later): %s'
                    % (run.get('alias'), json.dumps(run.get('retained_first_diff'))[:300])))
        return out
    for i, (st, (sres, _)) in enumerate(zip(steps, spec[1])):
        if st['res'] != sres:
            op = c['ops'][i]
            io, so = res_offset(st['res']), res_offset(sres)
            if io is not None and so is not None:
                outcome = 'returns-earlier-message' if io < so else 'skips-messages' if io > so else 'wrong-pieces'
            elif io is not None:
                outcome = 'returns-after-end' if sres[0] == 'STOP' else 'returns-instead-of-' + sres[0]
            elif so is not None:
                outcome = 'ends-early' if st['res'][0] == 'STOP' else 'raises-instead-of-message' if st['res'][0] == 'ERR' else 'no-message'
            else:
                outcome = '%s-instead-of-%s' % ('-'.join(map(str, st['res'][:2])), '-'.join(map(str, sres[:2])))
            hist = [o[0] for o in c['ops'][:i]]
            nonread = [k for k in hist if k != 'r']
            cls = 'cursor'
            if 'u' in hist and io is not None and by_off.get(io, {}).get('t8') is None and (so is None or io < so):
                cls = 'remove-untimed-ignored'
            sig = {'outcome': outcome, 'class': cls, 'op': op[0], 'after': nonread[-1] if nonread else 'start'}
            text = ('step %d (%s) after %s: implementation gives %s, the cursor over the filtered list gives %s'
                    % (i, json.dumps(op), json.dumps(c['ops'][:i]), json.dumps(st['res'])[:200], json.dumps(sres)[:200]))
            out.append(('violation', sig, text))
            return out
    for i, (st, (mres, mpriv)) in enumerate(zip(steps, model[1])):
        if st['res'] != mres:
            out.append(('correspondence', None, 'step %d (%s): MODEL %s, implementation %s' % (i, json.dumps(c['ops'][i]), json.dumps(mres)[:200], json.dumps(st['res'])[:200])))
            return out
        if st['priv'] is None:
            out.append(('note', None, 'private attributes next_index_elem / index not readable: advisory state comparison skipped'))
        elif st['priv'] != mpriv:
            out.append(('correspondence', None, 'step %d (%s): private state (next_index_elem, len(index)) MODEL %s, implementation %s' % (i, json.dumps(c['ops'][i]), mpriv, st['priv'])))
            return out
    return out


def shrink(ev, case, sig, rounds=14):
    cur = {k: case.get(k) for k in ('log', 'flags', 'max_bytes', 'srcs', 'ops')}
    for rnd in range(rounds):
        cands = []
        for i in range(len(cur['ops'])):
            cands.append(dict(cur, ops=cur['ops'][:i] + cur['ops'][i + 1:]))
        for i in range(len(cur['log'])):
            cands.append(dict(cur, log=cur['log'][:i] + cur['log'][i + 1:]))
        for k in ('max_bytes', 'srcs'):
            if cur[k] is not None:
                cands.append(dict(cur, **{k: None}))
        cands = [dict(c, id='s%d_%d' % (rnd, i)) for i, c in enumerate(cands)]
        if not cands:
            break
        try:
            recs = ev.run(cands, 'shrink%d' % rnd)
        except Exception:
            break
        nxt = None
        for c in cands:
            for kind, s, _ in judge(c, recs[c['id']]):
                if kind == 'violation' and s.get('class') == sig.get('class') and s.get('outcome') == sig.get('outcome'):
                    nxt = c
                    break
            if nxt:
                break
        if nxt is None:
            break
        cur = {k: nxt.get(k) for k in cur}
    return cur


def describe(c, rec):
    show = lambda x: x if x[0] != 'ok' else [r for r, _ in x[1]]
    return {'messages': [[m['off'], m['size'], m['type'], m['src'], m['t8']] for m in rec['log']['msgs']], 'ops': c['ops'],
            'impl': [s['res'] for s in rec['impl']['run'].get('steps', [])] or rec['impl']['run'],
            'spec': show(rec['spec']), 'model': show(rec['model']),
            'case': {k: c.get(k) for k in ('log', 'flags', 'max_bytes', 'srcs', 'ops')}}


def drain(spec):
    """reads to the end of the iteration, then clear_filters + rewind + a full read: after ANY history this must be the
    unfiltered read of a fresh reader (the original index is never modified)"""
    n = len([it for it in spec if it[0] == 'm'])
    return [['r']] * (n + 1) + [['c'], ['w']] + [['r']] * (n + 1)


def run(ctx):
    try:
        consts = gen_c10.generate()
    except Exception as e:
        ctx.obligation('translators/gen_c10.py evaluates the reader / indexer constants', False, 'translator', repr(e)[:400])
        ctx.broken_proof('translator gen_c10 failed: %r' % (e,))
        consts = {'header_size': K.HEADER_SIZE, 'populate_count': K.POPULATE_COUNT}
    K.set_consts(consts)
    ctx.notes.append('generated constants: %r' % consts)
    if not ctx.coq():
        ctx.broken_proof()
    elif ctx.thorough:
        K.coqchk(ctx, 'C11')
    ev = Evaluator(ctx)
    rng = ctx.rng
    cases = []
    if os.path.isdir(CORPUS):
        for fn in sorted(os.listdir(CORPUS)):
            if fn.endswith('.json'):
                c = json.load(open(os.path.join(CORPUS, fn)))
                cases.append(dict(c.get('case', c), origin='corpus'))
    # bounded-exhaustive scripts: every sequence of up to L operations of the log's alphabet, then read to the end
    L = 5 if ctx.thorough else 4
    for spec in BASE_LOGS:
        al = alphabet(spec)
        al = [al[0]] + al[2:]            # 12 operations: r ft ft fs fr fi u c w s s e
        for n in range(0, L + 1):
            # the longest length is kept in full for the first log and thinned to a third for the others
            for t in itertools.product(range(len(al)), repeat=n):
                if n == L and (sum(t) % (2 if spec is BASE_LOGS[0] else 6)) != 0:
                    continue
                ops = [al[i] for i in t]
                cases.append({'log': spec, 'flags': FLAGS, 'max_bytes': None, 'srcs': None, 'ops': ops + drain(spec), 'origin': 'exhaustive', 'nops': n})
    # structured family around seeks (positions reached by reads, by filter changes, or already current)
    for spec in BASE_LOGS:
        for ops in seek_family(spec, spec is BASE_LOGS[0]):
            cases.append({'log': spec, 'flags': FLAGS, 'max_bytes': None, 'srcs': None, 'ops': ops + drain(spec), 'origin': 'seek-family', 'nops': len(ops)})
    for spec in BASE_LOGS + [RICH_LOG]:
        for ops in history_families(spec, spec is BASE_LOGS[0]):
            cases.append({'log': spec, 'flags': FLAGS, 'max_bytes': None, 'srcs': None, 'ops': ops + drain(spec), 'origin': 'history-family', 'nops': len(ops)})
    # random scripts of up to 30 operations on random logs (some with a source filter / byte limit)
    for i in range(1500 if ctx.thorough else 400):
        u = rng.random()
        spec = rng.choice(BASE_LOGS) if u < 0.3 else K.rich_log(rng, rng.choice([15, 22, 30])) if u < 0.5 else K.random_log(rng, nmax=rng.choice([5, 9, 14]), junk_prob=0.2)
        ops = [random_op(rng, spec) for _ in range(rng.randint(1, 30))]
        ms = [it for it in spec if it[0] == 'm']
        srcs = None
        if rng.random() < 0.2 and ms:
            srcs = sorted(set(rng.sample([m[2] for m in ms], 1)))
        mb = None
        if rng.random() < 0.15:
            mb = rng.randint(0, 60 * len(ms) + 30)
        cases.append({'log': spec, 'flags': rng.choice([FLAGS, FLAGS, [1, 0, 0, 1, 0], [0, 0, 1, 1, 1]]), 'max_bytes': mb, 'srcs': srcs,
                      'ops': ops + drain(spec), 'origin': 'random', 'nops': len(ops)})
    for c in cases:
        c.pop('id', None)
    ctx.log('generated %d scripts' % len(cases))
    recs = ev.run(cases, 'main')
    shrunk = set()
    for c in cases:
        rec = recs[c['id']]
        ctx.case((c['logkey'], json.dumps(c['ops']), c.get('max_bytes'), json.dumps(c.get('srcs'))), nontrivial=len(c['ops']) > 0)
        ctx.count('scripts:' + c['origin'])
        for o in c['ops'][:c.get('nops', len(c['ops']))]:
            ctx.count('op:' + o[0])
        for st in rec['impl']['run'].get('steps', []):
            ctx.count('result:' + (st['res'][0] if st['res'][0] != 'ERR' else 'ERR:' + st['res'][1]))
        for kind, sig, text in judge(c, rec):
            if kind == 'violation':
                sc = c
                if (sig['class'], sig['outcome']) not in shrunk and not any(
                        f.get('status') == 'known' and all(sig.get(k) == v for k, v in f.get('match', {}).items()) for f in ctx.findings):
                    shrunk.add((sig['class'], sig['outcome']))
                    small = shrink(ev, c, sig)
                    small = dict(small, id='final%d' % len(shrunk), origin='shrunk')
                    r2 = ev.run([small], 'final%d' % len(shrunk), with_legacy=True)
                    j2 = [x for x in judge(small, r2[small['id']]) if x[0] == 'violation']
                    if j2:
                        sc, rec, sig, text = small, r2[small['id']], j2[0][1], j2[0][2]
                ctx.violation(sig, text, describe(sc, rec))
            elif kind == 'note':
                if text not in ctx.notes:
                    ctx.notes.append(text)
            else:
                ctx.broken_correspondence(text, describe(c, rec))
    for c in [c for c in cases if c['origin'] == 'random'][:3]:
        ctx.sample({'messages': [[m['off'], m['size'], m['type'], m['src'], m['t8']] for m in recs[c['id']]['log']['msgs']][:10], 'ops': c['ops'][:c['nops']],
                    'results': [s['res'][0] if s['res'][0] != 'MSG' else res_offset(s['res']) for s in recs[c['id']]['impl']['run'].get('steps', [])]})
    ctx.coverage['rule'] = ('operation scripts on a fresh reader, each followed by reads to the end of iteration and then clear_filters + rewind + a full read (which must be the unfiltered log), each run twice on two fresh readers; history families: read-to-end then seek, clear/remove-untimed/clear, the same slice repeated, range A - clear/unfiltered seek - range B, seek_to_eof then clear, two filter changes without a read, an empty filtered index then clear/seek/eof; '
                            'every sequence of <= %d operations over a 12-operation alphabet {read, 2 type filters, time slice, TimeRange, index slice, remove-untimed, '
                            'clear, rewind, seek filtered, seek unfiltered, seek_to_eof} on 3 logs (length-%d sequences thinned to a half on one log and a sixth on the other two), the family '
                            '"read x k; one of 7 filters; [read]; seek(i, filtered|unfiltered) for every i incl. the current position; clear / refilter; reads" for all k, i on the 3 logs, plus random scripts of <= 30 '
                            'operations (random keys incl. hints, negative / out-of-range slice bounds, zero step, invalid seeks) on random logs, some with a source filter or byte limit. '
                            'Compared after every operation: result against the SPEC cursor and the MODEL; the returned messages are inspected again after the whole script (retained results, object identity); next_index_elem and len(index) against the MODEL (advisory). '
                            'A case is distinct by (log, script, options).') % (L, L)
    ctx.coverage['exhaustive'] = False
    ctx.trusted_base += ['Coq 8.16.1 kernel + vm_compute', 'extraction (ExtrOcamlBasic only), ocaml/conv.ml + c11_driver.ml',
                         'hand transcription of MixedLogReader (read_next, filter_in_place, filter_out_invalid_p1_times, clear_filters, rewind, seek_to_message, seek_to_eof) '
                         'and FileIndex.__getitem__/get_time_range (Models/LogReaderM.v, Models/FileIndexOpsM.v), held by the differential run',
                         'numpy modelled: boolean-mask / slice indexing with Python slice semantics for positive steps, np.isin, np.argmax, NaN comparisons False',
                         'translators/gen_c10.py', 'harness/py/c10_logs.py + c11_impl.py']
    ctx.assumptions += ['P1 times do not decrease along the file', 'index slices with a negative step (which would reverse the index) are outside the modelled operations',
                        'filter operations are applied without clear_existing (clearing is its own operation)',
                        'times and bounds are multiples of 1/8 s in the generated cases']


def replay(ctx, rec):
    case = rec.get('case', rec)
    case = case.get('case', case)
    K.set_consts(gen_c10.generate())
    ev = Evaluator(ctx)
    c = dict(case, id='replay', origin='replay')
    r = ev.run([c], 'replay', with_legacy=True)[c['id']]
    print('log messages (offset, size, type, source, P1 time in 1/8 s):', [[m['off'], m['size'], m['type'], m['src'], m['t8']] for m in r['log']['msgs']])
    short = lambda res: res[0] if res[0] not in ('MSG', 'ERR') else (res_offset(res) if res[0] == 'MSG' else 'ERR:' + res[1])
    print('ops   ', [' '.join(map(str, o)) for o in c['ops']])
    print('IMPL  ', [short(s['res']) for s in r['impl']['run'].get('steps', [])] or r['impl']['run'])
    for name in ('model', 'spec', 'legacy'):
        x = r[name]
        print('%-6s' % name.upper(), [short(a) for a, _ in x[1]] if x[0] == 'ok' else x)
    js = judge(c, r)
    for kind, sig, text in js:
        if kind != 'note':
            print(kind.upper(), sig, text)
    import shutil
    shutil.rmtree(ctx.tmp, ignore_errors=True)
    return 1 if any(k == 'violation' for k, _, _ in js) else 0
