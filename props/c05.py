"""C05 — decoder output is independent of how the stream is split into chunks (engine shared with props/c04.py)."""
import vf
from props import c04 as base

LEVEL = 'proof'


def run(ctx):
    eng = base.Engine(ctx, 'C05')
    cases = base.build_cases(ctx, eng.lib, 'C05')
    ctx.log('%d streams, %d (stream, chunking) evaluations' % (len(cases), sum(base.n_chunkings(c) for c in cases)))
    eng.evaluate(cases)
    # the witness of C05_values_legacy_refuted on the repaired implementation: one call and split between the messages agree
    w = [c for c in cases if c.origin == 'corpus:coq-witness-wrapper4-small.json']
    if w:
        _, a = eng.verbose(w[0], 'ONE')
        _, b = eng.verbose(w[0], 'c:36,28')
        items = lambda v: [it for _, it in base.parse_items(v['impl_R'])]
        ok = isinstance(a, dict) and isinstance(b, dict) and items(a) == items(b) and len(items(a)) >= 1 and '!' not in a['impl_R'] + b['impl_R']
        ctx.obligation('legacy witness (wrapper with 4 data bytes + next message) now decodes to the same payload values in one call and split',
                       ok, 'witness-replay', (a['impl_R'][-60:] + ' / ' + b['impl_R'][-60:]) if ok else repr((a, b))[:400])
    base.common_evidence(ctx, eng, 'C05', cases)


def replay(ctx, rec):
    rec = dict(rec); rec['property'] = 'C05'
    return base.replay(ctx, rec)
