"""C05 — decoder output is independent of how the stream is split into chunks (engine shared with props/c04.py)."""
import vf
from props import c04 as base

LEVEL = 'proof'


def run(ctx):
    eng = base.Engine(ctx, 'C05')
    cases = base.build_cases(ctx, eng.lib, 'C05')
    ctx.log('%d streams, %d (stream, chunking) evaluations' % (len(cases), sum(base.n_chunkings(c) for c in cases)))
    eng.evaluate(cases)
    base.common_evidence(ctx, eng, 'C05', cases)


def replay(ctx, rec):
    rec = dict(rec); rec['property'] = 'C05'
    return base.replay(ctx, rec)
