"""C06 — integrity check: encoder output validates, corruption is rejected, CRCs agree."""
import glob, json, os, struct, traceback
from concurrent.futures import ThreadPoolExecutor
import vf
from translators import gen_fe, gen_c06

LEVEL = 'proof'
R = os.path.join(vf.REPO, 'src/point_one/fusion_engine')
CPP_SRC = [os.path.join(vf.VERIF, 'harness/cpp/c06_crc_h.cc'), R + '/messages/crc.cc', R + '/parsers/fusion_engine_framer.cc', R + '/common/logging.cc']
PYH = [vf.PY, os.path.join(vf.VERIF, 'harness/py/c06_impl.py')]
ASAN_ENV = dict(os.environ, ASAN_OPTIONS='halt_on_error=0:detect_leaks=0', UBSAN_OPTIONS='print_stacktrace=0')
M32 = 1 << 32
UNKNOWN_TYPES = [60000, 61234, 65535, 30000]      # not registered: the decoder returns the payload bytes


# ---------------------------------------------------------------------------------------------------
# runners
# ---------------------------------------------------------------------------------------------------
def run_jobs(exe, jobs, env=None, crash_ok=False):
    """jobs: list of (prefix_lines, lines). Each job is sharded; every shard is preceded by the prefix (whose
    outputs are dropped).  Returns list of output lists, one per job."""
    total = sum(len(j[1]) for j in jobs) or 1
    chunk = max(3000, total // (vf.NCPU * 3) + 1)
    shards = []
    for ji, job in enumerate(jobs):
        pre, lines = job[0], job[1]
        ch = job[2] if len(job) > 2 else chunk          # per-job shard size (expensive lines: small shards)
        for a in range(0, max(1, len(lines)), ch):
            shards.append((ji, a, pre, lines[a:a + ch]))

    def one(s):
        ji, a, pre, lines = s
        outs, todo, crashes = [], lines, 0
        while todo:
            rc, out, err = vf.run_lines(exe, list(pre) + todo, env=env, timeout=3000)
            got = out[len(pre):] if len(out) >= len(pre) else []
            if rc == 0 and len(got) == len(todo):
                outs += got
                break
            # the runner died: it answers and flushes line by line, so the line after the last answer killed it
            if not crash_ok or len(out) < len(pre) or len(got) >= len(todo):
                raise RuntimeError('runner %s rc=%s gave %d lines for %d: %s' % (exe, rc, len(out), len(pre) + len(todo), err[-1500:]))
            crashes += 1
            why = ' '.join(l for l in err.split('\n') if 'ERROR' in l or 'runtime error' in l)[:160].replace('=', ':') or 'rc:%s' % rc
            outs += got + ['CRASH ' + why.replace(' ', '_')]
            todo = todo[len(got) + 1:]
            if crashes >= 4:
                outs += ['CRASH not-run-after-4-crashes'] * len(todo)
                break
        return ji, a, outs
    res = [[] for _ in jobs]
    with ThreadPoolExecutor(vf.NCPU) as ex:
        for ji, a, out in sorted(ex.map(one, shards), key=lambda t: (t[0], t[1])):
            res[ji].extend(out)
    return res


class Runners:
    def __init__(self):
        self.model = vf.build_extracted('c06', 'C06', 'c06_driver.ml', conv=False)
        self.cpp = vf.build_cpp('c06_asan', CPP_SRC, extra_flags='-DUSE_ASAN -fsanitize-recover=address')

    def all3(self, jobs):
        """returns (py, cpp, model) outputs for the same jobs"""
        with ThreadPoolExecutor(3) as ex:
            fp = ex.submit(run_jobs, PYH, jobs, vf.IMPL_ENV)
            fc = ex.submit(run_jobs, self.cpp, jobs, ASAN_ENV, True)
            fm = ex.submit(run_jobs, self.model, jobs)
            return fp.result(), fc.result(), fm.result()


def kv(line):
    return dict(p.split('=', 1) for p in line.split() if '=' in p)


# ---------------------------------------------------------------------------------------------------
# CRC agreement
# ---------------------------------------------------------------------------------------------------
def crc_part(ctx, rn):
    r = ctx.rng
    lines = []
    for a in range(256):
        lines.append('C %02x 0' % a)
    for a in range(256):
        for b in range(256):
            lines.append('C %02x%02x 0' % (a, b))
    n_exh = len(lines)
    lines.append('C - 0'); lines.append('C - 12345')
    inits = [0, 1, 0xFFFFFFFF, 0x80000000, 0xEDB88320]
    for _ in range(3000 if ctx.thorough else 600):            # short buffers with arbitrary initial values
        n = r.randint(0, 3)
        lines.append('C %s %d' % (bytes(r.randrange(256) for _ in range(n)).hex() or '-', r.choice(inits + [r.randrange(M32)])))
    nbig = (1500, 64) if ctx.thorough else (150, 6)
    for _ in range(nbig[0]):
        n = r.choice([r.randint(3, 64), r.randint(64, 4096)])
        lines.append('C %s %d' % (r.randbytes(n).hex(), r.choice([0, 0, r.randrange(M32)])))
    for _ in range(nbig[1]):
        n = r.choice([65536, 65535, r.randint(16384, 65536)])
        lines.append('C %s %d' % (r.randbytes(n).hex(), r.choice([0, r.randrange(M32)])))
    # size classes: around 1 KiB, 4 KiB, 16 KiB, 64 KiB and beyond (a block / SIMD path may engage only on large inputs)
    big_sizes = [1023, 1024, 1025, 4095, 4096, 4097, 16383, 16384, 16385, 65535, 65536, 65537, 70001]
    if ctx.thorough:
        big_sizes += [131077, 262144 + 3, 1 << 20]
    for n in big_sizes:
        lines.append('C %s %d' % (r.randbytes(n).hex(), r.choice([0, r.randrange(M32)])))
    # structured buffers: all zero / all ones / single set bit (the CRC's affine part and linear part in isolation)
    for n in (1, 2, 3, 4, 5, 8, 31, 32, 33, 255, 256, 1000):
        lines.append('C %s 0' % ('00' * n)); lines.append('C %s 0' % ('ff' * n)); lines.append('C %s 0' % ('00' * (n - 1) + '80')); lines.append('C %s 0' % ('01' + '00' * (n - 1)))
    nsplit0 = len(lines)
    reps = 4 if ctx.thorough else 1
    for n in range(0, 65):
        for _ in range(reps):
            b = r.randbytes(n).hex() or '-'
            for k in range(0, n + 1):
                lines.append('S %s %d' % (b, k))
    for _ in range(200 if ctx.thorough else 40):                # longer buffers, random split points
        n = r.randint(65, 5000)
        b = r.randbytes(n).hex()
        for k in {0, n, r.randint(0, n), r.randint(0, n)}:
            lines.append('S %s %d' % (b, k))
    for n in ((1024, 4096, 4099, 16384, 65536, 70001) if ctx.thorough else (1024, 4099, 70001)):           # large buffers: splits near both ends and at block boundaries
        b = r.randbytes(n).hex()
        for k in sorted({0, 1, 3, 4, 5, 7, 8, 64, 1024, 4096, n - 8, n - 5, n - 4, n - 3, n - 1, n, r.randint(0, n)}):
            if 0 <= k <= n:
                lines.append('S %s %d' % (b, k))
    nl0 = len(lines)
    for _ in range(300):                                        # CalculateCRC(buf, len, init) on a prefix
        n = r.randint(0, 40)
        lines.append('L %s %d %d' % (r.randbytes(n).hex() or '-', r.randint(0, n), r.choice([0, r.randrange(M32)])))
    py, cpp, mdl = rn.all3([([], lines[:nl0])])
    py, cpp, mdl = py[0], cpp[0], mdl[0]
    cppL, mdlL = run_jobs(rn.cpp, [([], lines[nl0:])], ASAN_ENV, True)[0], run_jobs(rn.model, [([], lines[nl0:])])[0]
    for i, l in enumerate(lines[:nl0]):
        kind = 'crc:exhaustive<=2B' if i < n_exh else ('crc:split' if i >= nsplit0 else 'crc:buffer')
        ctx.count(kind); ctx.case(l if len(l) < 60 else ('crc', i))
        t, bs = mdl[i].split()
        case = {'op': 'crc', 'line': l if len(l) < 400 else l[:400] + '...', 'python_zlib': py[i], 'cpp_CalculateCRC': cpp[i], 'model_table': t, 'model_bitserial': bs}
        if 'VARIES' in cpp[i] or 'OVERREAD' in cpp[i]:
            ctx.violation({'op': 'crc', 'class': 'cpp-crc-depends-on-buffer-address-or-reads-past-the-buffer', 'kind': kind},
                          'CalculateCRC on %s at start alignments 0..7 (buffer at the end of an exact-size block / followed by garbage): %s; zlib.crc32 gives %s'
                          % (case['line'][:80], cpp[i], py[i]), dict(case, full_line=l))
        elif py[i] != cpp[i]:
            ctx.violation({'op': 'crc', 'class': 'python-and-cpp-crc-differ', 'kind': kind},
                          'zlib.crc32 gives %s, CalculateCRC gives %s on %s' % (py[i], cpp[i], case['line'][:80]), dict(case, full_line=l))
        elif bs != py[i]:
            ctx.violation({'op': 'crc', 'class': 'crc-differs-from-crc32-definition', 'kind': kind},
                          'both routines give %s, the bit-serial CRC-32 definition gives %s on %s' % (py[i], bs, case['line'][:80]), dict(case, full_line=l))
        elif t != cpp[i]:
            ctx.broken_correspondence('table-driven CRC model differs from crc.cc', dict(case, full_line=l))
    for l, a, b in zip(lines[nl0:], cppL, mdlL):
        ctx.count('crc:prefix-length'); ctx.case(l)
        w = l.split()
        buf = bytes.fromhex('' if w[1] == '-' else w[1])
        import zlib
        want = str(zlib.crc32(buf[:int(w[2])], int(w[3])))
        if 'VARIES' in a or 'OVERREAD' in a:
            ctx.violation({'op': 'crc', 'class': 'cpp-crc-depends-on-buffer-address-or-reads-past-the-buffer', 'kind': 'crc:prefix-length'},
                          'CalculateCRC(buf,%s,%s) at start alignments 0..7: %s; zlib = %s' % (w[2], w[3], a, want), {'op': 'crc', 'full_line': l})
        elif a != want:
            ctx.violation({'op': 'crc', 'class': 'python-and-cpp-crc-differ', 'kind': 'crc:prefix-length'}, 'CalculateCRC(buf,%s,%s) = %s, zlib = %s' % (w[2], w[3], a, want), {'op': 'crc', 'full_line': l})
        elif a != b:
            ctx.broken_correspondence('CalculateCRC(buf,len,init) model differs', {'op': 'crc', 'full_line': l, 'cpp': a, 'model': b})
    ctx.sample({'crc': [(lines[i][:40], py[i], cpp[i], mdl[i]) for i in (0, 300, n_exh + 5, nsplit0 + 7)]})


# ---------------------------------------------------------------------------------------------------
# encoder
# ---------------------------------------------------------------------------------------------------
def parse_hdr(b):
    return struct.unpack_from('<BBHIBBHIII', b, 0)


def enc_part(ctx, rn):
    """returns a list of (label, message bytes) produced by the real encoder, for the corruption part"""
    r = ctx.rng
    scen = []       # (seq0, [(t, v, src, payload)])
    seqs = [0, 1, 255, 256, 65535, 1 << 31, M32 - 3, M32 - 2, M32 - 1]
    for s0 in seqs:
        for ncalls in (1, 2, 4):
            calls = []
            for _ in range(ncalls):
                calls.append((r.choice(UNKNOWN_TYPES + [10000, 10001, 13000, 0]), r.choice([0, 1, 2, 255, r.randrange(256)]),
                              r.choice([0, 1, M32 - 1, r.randrange(M32)]), r.randbytes(r.choice([0, 1, 2, 7, 24, 100, r.randint(0, 400)]))))
            scen.append((s0, calls))
    for _ in range(400 if ctx.thorough else 80):
        s0 = r.choice([r.randrange(M32), r.randrange(M32), M32 - r.randint(1, 6)])
        scen.append((s0, [(r.randrange(65536), r.randrange(256), r.randrange(M32), r.randbytes(r.randint(0, 64))) for _ in range(r.randint(1, 8))]))
    scen.append((7, [(60000, 3, 9, r.randbytes(70000))]))
    # histories on ONE encoder: the same type with different source ids, interleaved types, sizes from 0 to 16 KiB
    scen.append((11, [(60000, 1, src, r.randbytes(5)) for src in (0, 1, 2, 1, 0, M32 - 1, 7, 7)]))
    scen.append((M32 - 4, [(t, 0, src, r.randbytes(n)) for t, src, n in ((60000, 1, 0), (61234, 2, 3), (60000, 2, 0), (10000, 1, 140), (61234, 1, 1), (60000, 1, 9), (65535, 0, 0), (60000, 3, 2))]))
    scen.append((3, [(60000, 0, 0, r.randbytes(n)) for n in (0, 1000, 0, 4096, 1, 16360, 16384, 0)]))
    scen.append((M32 - 2, [(61234, 5, 9, b'')] * 5))
    # corpus: the counter overflow seen before the repair
    for p in sorted(glob.glob(os.path.join(vf.VERIF, 'corpus', 'C06', '*.json'))):
        j = json.load(open(p))
        if j.get('kind') == 'encoder-scenario':
            scen.insert(0, (j['initial_sequence_number'], [(t, v, src, bytes.fromhex(h)) for t, v, src, h in j['calls']]))
    indom = len(scen)
    # outside the property's domain (struct.pack must refuse): correspondence only
    for t, v, src in ((65536, 0, 0), (1, 256, 0), (1, 0, M32), (70000, 300, M32 + 5)):
        scen.append((0, [(t, v, src, b'\x01\x02')]))
    scen.append((M32, [(1, 0, 0, b'')]))       # a counter set by hand beyond 32 bits
    # encode after an exception: the refused call must leave an encoder that keeps working
    scen.append((5, [(60000, 0, 1, b'\x01'), (60000, 0, M32, b'\x02'), (60000, 0, 2, b'\x03'), (61234, 0, 3, b'')]))
    scen.append((M32 - 2, [(70000, 0, 1, b''), (60000, 0, 1, b'\x05'), (60000, 256, 1, b''), (60000, 1, 1, b'\x06\x07'), (60000, 1, 2, b'')]))
    # every payload form pack() may return: bytes, bytearray, memoryview (rotating)
    lines = ['ENC %d %s' % (s0, ','.join('%d:%d:%d:%s:%s' % (t, v, src, p.hex() or '-', 'bam'[(si + ci) % 3]) for ci, (t, v, src, p) in enumerate(calls)))
             for si, (s0, calls) in enumerate(scen)]
    py = run_jobs(PYH, [([], lines)], vf.IMPL_ENV)[0]
    mdl = run_jobs(rn.model, [([], lines)])[0]
    produced = []
    for i, ((s0, calls), l, a, b) in enumerate(zip(scen, lines, py, mdl)):
        ctx.case(('enc', i)); ctx.count('encode:scenario' if i < indom else 'encode:out-of-domain')
        outs, final = a.split(' ')
        outs = outs.split(',')
        if '!' in a:
            ctx.violation({'op': 'encode', 'class': 'argument-modified-or-result-aliases-argument'},
                          'encode_message modified the payload it was given or returned a buffer that shares memory with it: %s' % [o[o.index('!'):] for o in outs if '!' in o][:3],
                          {'op': 'encode', 'initial_sequence_number': s0, 'line': l if len(l) < 3000 else None, 'impl': a[:3000]})
            continue
        norm = ','.join('ERR' if o.startswith('ERR') else o for o in outs) + ' ' + final
        case = {'op': 'encode', 'initial_sequence_number': s0, 'calls': [(t, v, src, p.hex() if len(p) < 200 else '<%d bytes>' % len(p)) for t, v, src, p in calls],
                'line': l if len(l) < 3000 else None, 'impl': a if len(a) < 3000 else a[:3000], 'model': b if len(b) < 3000 else b[:3000]}
        if i >= indom:
            # out-of-domain histories: the in-range calls that follow a refused one must still be valid messages
            for k, ((t, v, src, p), o) in enumerate(zip(calls, outs)):
                if t < 65536 and v < 256 and src < M32 and s0 + k < M32 and not o.startswith('ERR'):
                    ob = bytes.fromhex(o)
                    if t in UNKNOWN_TYPES and len(ob) <= 64:
                        produced.append(('raw type=%d len=%d' % (t, len(p)), ob, t))
        if i < indom:
            bad = None
            for k, ((t, v, src, p), o) in enumerate(zip(calls, outs)):
                ctx.count('encode:call')
                want_seq = (s0 + k) % M32
                if o.startswith('ERR'):
                    bad = ({'op': 'encode', 'class': 'raises', 'when': 'sequence-number-reaches-2^32' if s0 + k >= M32 else 'in-range-counter'},
                           'encode_message raised %s on call %d with sequence counter %d (the header field is 32 bits; the counter is expected to wrap)' % (o[4:], k + 1, s0 + k))
                    break
                ob = bytes.fromhex(o)
                if len(ob) != 24 + len(p):
                    bad = ({'op': 'encode', 'class': 'wrong-length'}, 'output of %d bytes for a %d-byte payload' % (len(ob), len(p))); break
                s0_, s1_, rsv, crc, proto, ver, typ, seq, psz, source = parse_hdr(ob)
                got = {'sync': (s0_, s1_), 'reserved': rsv, 'message_version': ver, 'message_type': typ, 'sequence_number': seq, 'payload_size_bytes': psz, 'source_identifier': source, 'payload': ob[24:]}
                want = {'sync': (0x2E, 0x31), 'reserved': 0, 'message_version': v, 'message_type': t, 'sequence_number': want_seq, 'payload_size_bytes': len(p), 'source_identifier': src, 'payload': p}
                diff = [f for f in want if want[f] != got[f]]
                if diff:
                    bad = ({'op': 'encode', 'class': 'field-mismatch', 'field': diff[0]}, 'encoded %s is %r, expected %r (call %d from counter %d)' % (diff[0], got[diff[0]], want[diff[0]], k + 1, s0)); break
                produced.append(('raw type=%d len=%d' % (t, len(p)), ob, t))
            if bad is None and int(final) != (s0 + len(calls)) % M32 and False:
                pass
            if bad:
                ctx.violation(bad[0], bad[1], case)
                continue
        if norm != b:
            ctx.broken_correspondence('encode_message model and implementation differ', case)
    # payload objects of the registered classes
    classes = vf.run_lines(PYH, ['CLASSES'], env=vf.IMPL_ENV)[1][0].split()
    ctx.notes.append('payload classes whose default instance packs: %d' % len(classes))
    ol = ['ENCOBJ %d %d %s' % (r.choice([0, 5, M32 - 1, r.randrange(M32)]), r.choice([0, 7, M32 - 1, r.randrange(M32)]), c) for c in classes]
    oo = run_jobs(PYH, [([], ol)], vf.IMPL_ENV)[0]
    ml, keep = [], []
    for l, o in zip(ol, oo):
        w = o.split()
        if len(w) != 4:
            ctx.notes.append('ENCOBJ %s: %s' % (l.split()[3], o[:120])); continue
        _, s0, src, cname = l.split()
        ml.append('ENC %s %s:%s:%s:%s' % (s0, w[1], w[2], src, w[3])); keep.append((cname, w, int(s0), int(src)))
    mo = run_jobs(rn.model, [([], ml)])[0]
    for (cname, w, s0, src), b in zip(keep, mo):
        ctx.case(('encobj', cname)); ctx.count('encode:payload-object')
        ob = bytes.fromhex(w[0])
        hd = parse_hdr(ob)
        case = {'op': 'encode-object', 'class': cname, 'initial_sequence_number': s0, 'source_identifier': src, 'impl': w[0], 'model': b}
        if (hd[6], hd[5], hd[7], hd[9], hd[8]) != (int(w[1]), int(w[2]), s0, src, len(ob) - 24) or ob[24:].hex() != ('' if w[3] == '-' else w[3]):
            ctx.violation({'op': 'encode', 'class': 'field-mismatch', 'field': 'object'}, 'encoded %s does not carry the payload type/version/sequence/source it was given' % cname, case)
        elif b.split(' ')[0] != w[0]:
            ctx.broken_correspondence('encode_message model differs on a %s object' % cname, case)
        else:
            produced.append((cname, ob, hd[6]))
    # MessageHeader.calculate_crc directly
    hl = ['HC %d:%d:%d:%d:%s' % (r.randrange(65536), r.randrange(256), r.choice([r.randrange(M32), M32 - 1]), r.randrange(M32), r.randbytes(r.randint(0, 50)).hex() or '-') for _ in range(200)]
    hl += ['HC 1:0:%d:0:00' % M32, 'HC 65536:0:0:0:00']
    hp, hm = run_jobs(PYH, [([], hl)], vf.IMPL_ENV)[0], run_jobs(rn.model, [([], hl)])[0]
    for l, a, b in zip(hl, hp, hm):
        ctx.case(l); ctx.count('calculate_crc')
        if ('ERR' if a.startswith('ERR') else a) != b:
            ctx.broken_correspondence('calculate_crc model differs', {'op': 'calculate_crc', 'line': l, 'impl': a, 'model': b})
    ctx.sample({'encode': [(lines[0], py[0][:120]), (ol[0], oo[0][:100])]})
    return produced


# ---------------------------------------------------------------------------------------------------
# corruption
# ---------------------------------------------------------------------------------------------------
def enc_err(flips):
    """flips: dict byte -> xor mask.  'off hex off hex ...' with adjacent bytes merged"""
    out, run, start, prev = [], [], None, None
    for b in sorted(flips):
        if prev is not None and b == prev + 1:
            run.append(flips[b])
        else:
            if run:
                out.append('%d %s' % (start, bytes(run).hex()))
            run, start = [flips[b]], b
        prev = b
    if run:
        out.append('%d %s' % (start, bytes(run).hex()))
    return ' '.join(out)


def bits_to_flips(bits):
    f = {}
    for by, bi in bits:
        f[by] = f.get(by, 0) ^ (1 << bi)
    return f


def gen_errors(ctx, n, budget):
    """error patterns for an n-byte message: yields (class, [(byte, bit)...]).  Region bit k <-> byte 8 + k//8, bit k%8
    (the order the CRC register consumes them); CRC field bit k <-> byte 4 + k//8, bit k%8."""
    r = ctx.rng
    nR = 8 * (n - 8)
    Rb = lambda k: (8 + k // 8, k % 8)
    Cb = lambda k: (4 + k // 8, k % 8)
    pos = [Cb(k) for k in range(32)] + [Rb(k) for k in range(nR)]
    for p in pos:
        yield 'one-bit', [p]
    npos = len(pos)
    if n <= 64:
        for i in range(npos):
            for j in range(i + 1, npos):
                yield 'two-bit', [pos[i], pos[j]]
    else:
        for _ in range(budget['two']):
            i, j = r.sample(range(npos), 2)
            yield 'two-bit', [pos[i], pos[j]]
        for i in range(npos - 1):            # adjacent and CRC-field x region pairs always
            yield 'two-bit', [pos[i], pos[i + 1]]
    nrand = budget['burst_rand']

    def patterns(w):
        yield [0, w - 1]
        if w > 2:
            yield list(range(w))
            for _ in range(nrand):
                yield [0] + [k for k in range(1, w - 1) if r.random() < 0.5] + [w - 1]
    starts = range(nR)
    if nR * 31 * (2 + nrand) > budget['burst_max']:
        keep = max(64, budget['burst_max'] // (31 * (2 + nrand)))
        starts = sorted(set(list(range(0, 160)) + list(range(max(0, nR - 64), nR)) + r.sample(range(nR), min(nR, keep))))
    for p in starts:
        for w in range(2, 33):
            if p + w > nR:
                break
            for pat in patterns(w):
                yield 'burst-in-region', [Rb(p + k) for k in pat]
    for p in range(32):
        for w in range(2, 33 - p):
            for pat in patterns(w):
                yield 'burst-in-crc-field', [Cb(p + k) for k in pat]
    # bursts across the boundary between the last CRC byte and the first protected byte (information only)
    for s in range(1, 32):
        for t in range(1, 33 - s):
            if t > nR:
                break
            w = s + t
            for pat in patterns(w):
                yield 'burst-straddling-crc-and-region', [Cb(32 - s + k) if k < s else Rb(k - s) for k in pat]


COVERED = ('one-bit', 'two-bit', 'burst-in-region', 'burst-in-crc-field')


def corrupt_part(ctx, rn, messages):
    """messages: list of (label, bytes, msgtype). Every error pattern is applied by each runner to the base message."""
    budget = {'two': 20000, 'burst_rand': 2, 'burst_max': 150000} if ctx.thorough else {'two': 2500, 'burst_rand': 1, 'burst_max': 32000}
    jobs, meta = [], []
    for label, msg, _ in messages:
        large = len(msg) > 600
        errs = list(gen_errors_sampled(ctx, len(msg), (40 if ctx.thorough else 8) if len(msg) < 20000 else (12 if ctx.thorough else 4))) if large else list(gen_errors(ctx, len(msg), budget))
        lines = ['E ' + enc_err(bits_to_flips(b)) for _, b in errs]
        # first line: the uncorrupted message; large messages: the (quadratic) reference scans are left out of the analysis
        jobs.append((['FM 131072', 'NOSCAN %d' % large, 'B ' + msg.hex()], ['E 0 00'] + lines) + ((max(4, 400000 // len(msg)),) if large else ()))
        meta.append(errs)
    py, cpp, mdl = rn.all3(jobs)
    straddle_acc = 0
    for (label, msg, mtype), errs, lp, lc, lm in zip(messages, meta, py, cpp, mdl):
        n = len(msg)
        # the uncorrupted message must be accepted by everything
        if lc[0].startswith('CRASH'):
            ctx.violation({'op': 'validate', 'class': 'cpp-process-dies'}, 'the C++ validators kill the process on the valid %s: %s' % (label, lc[0]), {'op': 'validate', 'message': label, 'msg_hex': msg.hex(), 'flips': []})
            continue
        a, c, m = kv(lp[0]), kv(lc[0]), kv(lm[0])
        ctx.case(('msg', msg)); ctx.count('message:' + label.split(' ')[0])
        base_case = {'op': 'validate', 'message': label, 'msg_hex': msg.hex(), 'flips': [], 'impl_python': lp[0], 'impl_cpp': lc[0], 'model_and_spec': lm[0]}
        whole = '0:%d' % n
        rej = [w for w, ok in (('validate_crc', a['V'] == 'ok'), ('IsValid', c['I'] == '1'), ('python-decoder', a['D'] == whole), ('cpp-framer', c['F'] == whole)) if not ok]
        if m['J'] != 'A%d' % n:
            ctx.violation({'op': 'validate', 'class': 'encoder-output-not-a-valid-frame'}, 'the CRC-32 definition rejects the encoder output (%s)' % label, base_case)
        elif rej and not (rej == ['python-decoder'] and a['V'] == 'ok'):
            ctx.violation({'op': 'validate', 'class': 'valid-message-rejected', 'by': rej[0]}, 'a valid encoded message (%s) is rejected by %s' % (label, ', '.join(rej)), base_case)
        elif rej:
            ctx.notes.append('decoder does not return the valid %s (payload does not parse; C04 matter)' % label)
        if 'OVERREAD' in lc[0] or '/al4:' in lc[0]:
            ctx.violation({'op': 'validate', 'class': 'cpp-reads-past-the-message-or-depends-on-alignment'},
                          'IsValid / CalculateCRC(buffer) / framer on the valid %s: %s' % (label, lc[0]), base_case)
        elif (a['V'], c['I'], c['C1']) != (m['V'], m['I'], m['C1']):
            ctx.broken_correspondence('validator models differ on an uncorrupted message', base_case)
        for (cls, bits), ip, ic, im in zip(errs, lp[1:], lc[1:], lm[1:]):
            touches = any(16 <= by <= 19 for by, _ in bits)
            if ic.startswith('CRASH'):
                ctx.evals += 1
                if 'not-run' not in ic:
                    ctx.violation({'op': 'corrupt', 'class': 'cpp-process-dies', 'touches_size_field': touches, 'spec_accepts': False},
                                  'IsValid / CalculateCRC(buffer) / the framer kill the process on a %d-byte message (%s) with %s error %r: %s' % (n, label, cls, bits, ic),
                                  {'op': 'corrupt', 'message': label, 'msg_hex': msg.hex(), 'class': cls, 'flips': bits, 'touches_size_field': touches, 'impl_cpp': ic, 'model_and_spec': im})
                continue
            a, c, m = kv(ip), kv(ic), kv(im)
            if 'EXC:' in ip or 'HARNESS-ERR' in ip:
                ctx.violation({'op': 'corrupt', 'class': 'unexpected-exception', 'touches_size_field': touches, 'spec_accepts': False},
                              'an exception other than ValueError / struct.error escapes unpack(validate_crc=True) or on_data() on a corrupted %s (%r): %s' % (label, bits, ip[:120]),
                              {'op': 'corrupt', 'message': label, 'msg_hex': msg.hex(), 'class': cls, 'flips': bits, 'touches_size_field': touches, 'impl_python': ip})
                continue
            ctx.evals += 1
            ctx.count('corrupt:' + cls + ('(size field hit)' if touches else ''))
            acc = [w for w, hit in (('validate_crc', a['V'] == 'ok'), ('IsValid', c['I'] == '1'),
                                    ('python-decoder', a['D'].split(';')[0].startswith('0:')), ('cpp-framer', c['F'].split(';')[0].startswith('0:'))) if hit]
            case = None
            if acc or (a['V'], c['I'], c['C1']) != (m['V'], m['I'], m['C1']) or (cls in COVERED and not touches and m['J'] != 'R'):
                case = {'op': 'corrupt', 'message': label, 'msg_hex': msg.hex(), 'class': cls, 'flips': bits, 'touches_size_field': touches,
                        'impl_python': ip, 'impl_cpp': ic, 'model_and_spec': im}
            if 'OVERREAD' in ic or '/al4:' in ic:
                ctx.violation({'op': 'corrupt', 'class': 'cpp-reads-past-the-message-or-depends-on-alignment'},
                              'IsValid / CalculateCRC(buffer) / framer on a %d-byte message (%s, pattern %r): %s' % (n, label, bits, ic),
                              case or {'op': 'corrupt', 'message': label, 'msg_hex': msg.hex(), 'class': cls, 'flips': bits, 'impl_cpp': ic})
            elif cls == 'burst-straddling-crc-and-region':
                if acc:
                    straddle_acc += 1
                    ctx.count('corrupt:straddling-burst-accepted(information)')
                    ctx.sample({'straddling burst accepted': case}, limit=8)
            elif acc:
                ctx.violation({'op': 'corrupt', 'class': cls, 'touches_size_field': touches, 'accepted_by': acc[0], 'spec_accepts': m['J'].startswith('A')},
                              '%s error %r in a %d-byte message (%s) is accepted by %s' % (cls, bits, n, label, ', '.join(acc)), case)
            elif cls in COVERED and not touches and m['J'] != 'R':
                ctx.broken_correspondence('the extracted acceptance test does not reject a pattern the theorems say is rejected', case)
            if case and (a['V'], c['I'], c['C1']) != (m['V'], m['I'], m['C1']):
                ctx.broken_correspondence('validate_crc / IsValid / CalculateCRC(buffer) model differs from the implementation on a corrupted message', case)
            # decoder / framer beyond offset 0 are other properties' models (C04, C07): advisory
            if m['S'] == '?':
                continue
            if a['D'] != m['S'] and not acc:
                ctx.count('advisory:decoder-differs-from-scan')
            if c['F'] != m['SE'] and not acc:
                ctx.count('advisory:framer-differs-from-scan')
        ctx.nontrivial.add('msg:%s:%d' % (label, len(errs)))
    ctx.notes.append('bursts straddling the CRC field / region boundary that were accepted: %d (information; such a pattern is not a burst in codeword order)' % straddle_acc)


def header_object_part(ctx, rn, messages):
    """validate_crc() is a function of (header fields, buffer): one header object validating several buffers in turn,
    a header parsed from one message validating another buffer, with and without an offset."""
    r = ctx.rng
    lines, meta = [], []
    for label, msg, _ in messages:
        n = len(msg)
        spots = [(12, 0), (9, 3), (4, 1), (7, 7), (20, 6)] + ([(24, 0), (n - 1, 7), (24 + r.randrange(n - 24), r.randrange(8))] if n > 24 else [])
        for by, bi in spots:
            bad = bytearray(msg); bad[by] ^= 1 << bi; bad = bytes(bad)
            for off in (0, 3):
                pre = r.randbytes(off)
                for hdr, seq in ((msg, [bad, bad, msg]), (bad, [bad, bad, msg]), (msg, [msg, bad, msg, msg])):
                    lines.append('VV %s %d %s' % (hdr.hex(), off, ' '.join((pre + b).hex() for b in seq)))
                    meta.append((label, (by, bi), off))
    if not lines:
        return
    py = run_jobs(PYH, [([], lines)], vf.IMPL_ENV)[0]
    mdl = run_jobs(rn.model, [([], lines)])[0]
    for l, (label, spot, off), a, b in zip(lines, meta, py, mdl):
        ctx.case(('vv', l[:60], len(l))); ctx.count('validate_crc:one-header-several-buffers')
        case = {'op': 'validate-sequence', 'message': label, 'flipped': spot, 'offset': off, 'full_line': l, 'impl': a, 'spec_and_model': b}
        if a.split(' ')[0] != b.split(' ')[0]:
            ctx.violation({'op': 'validate-sequence', 'class': 'outcome-depends-on-earlier-calls-or-not-on-the-buffer'},
                          'one MessageHeader validating buffers in turn (%s, bit %r flipped, offset %d): implementation says %s, '
                          'crc32(buffer[offset+8:offset+size]) == header.crc says %s' % (label, spot, off, a.split(' ')[0], b.split(' ')[0]), case)
        elif a != b:
            ctx.broken_correspondence('validate_crc changes the header object (crc / payload_size_bytes after the calls differ from the model)', case)



def header_history_part(ctx, rn, messages):
    """random histories on ONE MessageHeader object: set fields, calculate_crc, pack (plain, with payload, into a
    sentinel-filled caller buffer at an offset), unpack(validate_crc=True) of good and corrupted messages, validate_crc
    of several buffers in turn.  The model is a function of the header fields and the arguments only."""
    r = ctx.rng
    msgs = [m for _, m, _ in messages if len(m) <= 200]
    lines = []
    nhist = 600 if ctx.thorough else 150
    for _ in range(nhist):
        ops = ['N:%d' % r.choice(UNKNOWN_TYPES + [10000, 0]), 'S:%d:%d:%d' % (r.randrange(256), r.choice([0, M32 - 1, r.randrange(M32)]), r.choice([0, M32 - 1, r.randrange(M32)]))]
        for _ in range(r.randint(2, 9)):
            k = r.random()
            pl = r.randbytes(r.choice([0, 0, 1, 3, 17, 60]))
            f = r.choice('bam')
            if k < 0.12:
                ops.append('S:%d:%d:%d:%d:%d' % (r.randrange(256), r.randrange(M32), r.randrange(M32), r.randrange(M32), r.choice([0, 0, 7, 65535])))
            elif k < 0.27:
                ops.append('C:%s:%s' % (pl.hex(), f))
            elif k < 0.37:
                ops.append('P')
            elif k < 0.52:
                ops.append('Q:%s:%s' % (pl.hex(), f))
            elif k < 0.62:
                off = r.choice([0, 1, 3, 8])
                ops.append('B:%s:%d:%d' % (pl.hex(), off, off + 24 + len(pl) + r.choice([0, 1, 5])))
            else:
                m = r.choice(msgs)
                bad = bytearray(m)
                if r.random() < 0.6:
                    i = r.choice([4, 7, 9, 12, 20, len(m) - 1]); bad[i] ^= 1 << r.randrange(8)
                buf = bytes(bad) if r.random() < 0.8 else bytes(bad[:r.choice([3, 23, 24, max(24, len(m) - 1)])])
                if k < 0.8:
                    ops.append('U:%s' % buf.hex())
                else:
                    off = r.choice([0, 0, 2])
                    ops.append('V:%s:%d' % ((r.randbytes(off) + buf).hex() or '00', off))
            if r.random() < 0.4:
                ops.append('F')
        ops.append('F'); ops.append('P')
        lines.append('HH ' + ' '.join(ops))
    py = run_jobs(PYH, [([], lines)], vf.IMPL_ENV)[0]
    mdl = run_jobs(rn.model, [([], lines)])[0]
    for l, a, b in zip(lines, py, mdl):
        ctx.case(('hh', l[:80], len(l))); ctx.count('header-object:history'); ctx.count('header-object:op', l.count(' '))
        if a != b:
            ta, tb = a.split(' '), b.split(' ')
            k = next((i for i, (x, y) in enumerate(zip(ta, tb)) if x != y), min(len(ta), len(tb)))
            op = l.split(' ')[1:][k] if k < l.count(' ') else '?'
            cls = 'argument-modified-or-aliased' if '!' in a else ('unexpected-exception' if 'EXC:' in a else 'result-depends-on-earlier-calls-or-differs-from-definition')
            ctx.violation({'op': 'header-history', 'class': cls, 'step': op.split(':')[0]},
                          'history on one MessageHeader object: step %d (%s) gives %s, the definition gives %s' % (k + 1, op[:60], (ta[k] if k < len(ta) else '-')[:80], (tb[k] if k < len(tb) else '-')[:80]),
                          {'op': 'header-history', 'full_line': l, 'impl': a, 'spec_and_model': b})


DEC_OPTS = ['woe=NONE', 'woe=LIKELY,log=warn', 'woe=ALL,log=debug,wu=1,wg=1', 'woe=all,log=trace', 'woe=likely,rb=0,ro=0', 'woe=none,rb=1,ro=0,wg=1',
            'woe=True,rb=0,ro=1,wu=1,log=debug', 'woe=False,log=trace,wg=1,wu=1']
CHUNKINGS = ['all', 'ints', '1', '7,1,30', '24', '5,64']


def stream_part(ctx, rn, produced):
    """a corrupted message inside a stream of valid ones, through ONE decoder / ONE framer with every warning / logging /
    return option and several chunkings: the corrupted message is not reported, no exception escapes, and every message
    a left-to-right scan accepts afterwards still comes out (a corrupted size field must not wedge the receiver)."""
    r = ctx.rng
    pool = [ob for l, ob, t in produced if l.startswith('raw') and t in UNKNOWN_TYPES and 24 <= len(ob) <= 200]
    seen, uniq = set(), []
    for ob in pool:                      # distinct (length, sequence, crc) so that frames are identifiable
        k = (len(ob),) + struct.unpack_from('<I', ob, 12) + struct.unpack_from('<I', ob, 4)
        if k not in seen:
            seen.add(k); uniq.append(ob)
    if len(uniq) < 6:
        ctx.notes.append('stream part skipped: too few distinct raw messages'); return
    nst = 60 if ctx.thorough else 16
    cases = []
    for si in range(nst):
        a, b, c, d = r.sample(uniq, 4)
        n = len(b)
        pats = []
        for _ in range(6):
            pats.append([(r.randrange(4, n), r.randrange(8))])                                  # one bit
            i, j = r.sample(range(32, 8 * n), 2); pats.append([(i // 8, i % 8), (j // 8, j % 8)])     # two bits
            p0 = r.randrange(64, 8 * n - 1); w = r.randint(2, min(32, 8 * n - p0))
            pats.append([((p0 + k) // 8, (p0 + k) % 8) for k in range(w) if k in (0, w - 1) or r.random() < 0.5])
        # the size field: shrink, grow a little (into the next message), grow beyond the stream, grow beyond every limit, wrap
        psz = n - 24
        for new in {max(0, psz - 1), 0, psz + 1, psz + len(c) // 2, psz + len(c), psz + len(c) + len(d) + 5, 1 << 16, (1 << 24) + 1, 0x7FFFFFFF, 0xFFFFFFE8, 0xFFFFFFFF, psz ^ 0x100}:
            if new != psz:
                x = struct.pack('<I', psz ^ new)
                pats.append([(16 + i, bit) for i in range(4) for bit in range(8) if x[i] >> bit & 1])
        junk = r.randbytes(r.choice([0, 0, 3]))
        for pi, bits in enumerate(pats):
            bad = bytearray(b)
            for by, bi in bits:
                bad[by] ^= 1 << bi
            stream = a + junk + bytes(bad) + c + d + r.randbytes(r.choice([0, 2]))
            cases.append((stream, len(a) + len(junk), bits, DEC_OPTS[(si + pi) % len(DEC_OPTS)], CHUNKINGS[(si * 7 + pi) % len(CHUNKINGS)], (si + pi) % 2))
    cap = 4096
    pl = ['ST %s %s %s' % (o, ch, st.hex()) for st, _, _, o, ch, _ in cases]
    cl = ['ST %d %d %s %s' % (w, cap, 'bytes' if ch == 'ints' else ch, st.hex()) for st, _, _, _, ch, w in cases]
    ml = ['ST lazy 16777216 %s' % st.hex() for st, _, _, _, _, _ in cases]
    me = ['ST eager %d %s' % (cap - 24, st.hex()) for st, _, _, _, _, _ in cases]
    with ThreadPoolExecutor(4) as ex:
        fp = ex.submit(run_jobs, PYH, [([], pl)], vf.IMPL_ENV); fc = ex.submit(run_jobs, rn.cpp, [([], cl)], ASAN_ENV, True)
        fm = ex.submit(run_jobs, rn.model, [([], ml)]); fe = ex.submit(run_jobs, rn.model, [([], me)])
        py, cpp, sl, se = fp.result()[0], fc.result()[0], fm.result()[0], fe.result()[0]

    def frames(t):
        t = t.split('!')[0]
        return [] if t in ('-', '') else [f.split('@')[0] for f in t.split(';')]
    for (st, off, bits, o, ch, w), a, c, s1, s2 in zip(cases, py, cpp, sl, se):
        ctx.case(('st', st[:40], len(st), o, ch)); ctx.count('stream:corrupted-message-among-valid-ones')
        touches = any(16 <= by <= 19 for by, _ in bits)
        for who, got, spec, opts in (('python-decoder', a, s1, '%s chunks=%s' % (o, ch)), ('cpp-framer', c, s2, 'WarnOnError=%d chunks=%s' % (w, ch))):
            case = {'op': 'stream', 'receiver': who, 'options': opts, 'stream_hex': st.hex(), 'corrupted_message_offset': off, 'flips': bits,
                    'py_line': 'ST %s %s %s' % (o, ch, st.hex()), 'cpp_line': 'ST %d %d %s %s' % (w, cap, 'bytes' if ch == 'ints' else ch, st.hex()), 'impl': got, 'spec': spec}
            if got.startswith('CRASH') or got.startswith('EXC:'):
                ctx.violation({'op': 'stream', 'class': 'exception-or-crash-escapes', 'receiver': who}, '%s (%s) on a stream with a corrupted message: %s' % (who, opts, got[:100]), case)
                continue
            if '!' in got:
                ctx.violation({'op': 'stream', 'class': 'results-aliased-or-callbacks-missing-or-over-read', 'receiver': who}, '%s (%s): %s' % (who, opts, got[got.index('!'):][:100]), case)
                continue
            fi, fs = frames(got), frames(spec)
            spec_at = [f for f in spec.split(';') if f.endswith('@%d' % off)]
            # the corrupted message itself: identified by its offset (python with return_offset; C++ by content search)
            reported_bad = [f for f in got.split('!')[0].split(';') if f.endswith('@%d' % off)] and not spec_at
            lost = [f for f in fs if f not in fi]
            extra = [f for f in fi if f not in fs]
            if reported_bad:
                ctx.violation({'op': 'stream', 'class': 'corrupted-message-reported', 'receiver': who, 'touches_size_field': touches},
                              '%s (%s) reports the corrupted message at offset %d (pattern %r)' % (who, opts, off, bits), case)
            elif lost:
                ctx.violation({'op': 'stream', 'class': 'valid-message-lost-after-corruption', 'receiver': who, 'touches_size_field': touches},
                              '%s (%s) does not report %s although a left-to-right scan accepts it (corrupted message at %d, pattern %r)' % (who, opts, lost[:2], off, bits), case)
            elif extra and who == 'python-decoder':
                ctx.violation({'op': 'stream', 'class': 'message-reported-that-the-scan-rejects', 'receiver': who, 'touches_size_field': touches},
                              '%s (%s) reports %s which a left-to-right scan does not accept' % (who, opts, extra[:2]), case)
            elif extra or fi != fs:
                ctx.count('advisory:framer-differs-from-scan(stream)')


def gen_errors_sampled(ctx, n, k):
    """a sample of the same classes for large messages (positions at both ends, the middle and at random)"""
    r = ctx.rng
    nR = 8 * (n - 8)
    Rb = lambda q: (8 + q // 8, q % 8)
    spots = sorted({0, 8, 63, 128 + 8 * 16, nR // 2, nR - 33, nR - 8, nR - 1} | {r.randrange(nR) for _ in range(k)})
    spots = [q for q in spots if 0 <= q < nR]
    for q in spots:
        yield 'one-bit', [Rb(q)]
    for q in range(32):
        if q % 5 == 0:
            yield 'one-bit', [(4 + q // 8, q % 8)]
    for _ in range(k):
        i, j = r.sample(range(nR), 2)
        yield 'two-bit', [Rb(i), Rb(j)]
    yield 'two-bit', [Rb(0), Rb(nR - 1)]
    yield 'two-bit', [(4, 0), Rb(nR - 1)]
    for q in spots:
        for w in ((2, 9, 31, 32) if ctx.thorough else (2, 32)):
            if q + w <= nR:
                yield 'burst-in-region', [Rb(q + t) for t in range(w) if t in (0, w - 1) or r.random() < 0.5]
    yield 'burst-in-crc-field', [(4, 3), (7, 7)]
    yield 'burst-straddling-crc-and-region', [(7, 7), (8, 0)]


def pick_messages(ctx, produced):
    r = ctx.rng
    out = []
    # corpus first
    for p in sorted(glob.glob(os.path.join(vf.VERIF, 'corpus', 'C06', '*.json'))):
        j = json.load(open(p))
        if 'msg_hex' in j:
            out.append(('corpus ' + os.path.basename(p), bytes.fromhex(j['msg_hex']), None))
    raws = {}
    for label, ob, t in produced:
        if label.startswith('raw') and t in UNKNOWN_TYPES and len(ob) <= 64:
            raws.setdefault(len(ob), (label, ob, t))
    sizes = sorted(raws)
    want = sizes if ctx.thorough else ([s for s in sizes if s in (24, 25, 26, 31)] + [s for s in sizes if s <= 50][-1:])[:5]
    out += [raws[s] for s in want]
    # size classes: > 1 KiB, >= 4 KiB, 16 KiB, > 64 KiB (sampled patterns)
    for lo, hi in ((1000, 1100), (4096, 4200), (16384, 16500), (65536, 80000)):
        big = [(l, ob, t) for l, ob, t in produced if l.startswith('raw') and t in UNKNOWN_TYPES and lo <= len(ob) - 24 <= hi]
        out += big[:1]
    objs = [(l, ob, t) for l, ob, t in produced if not l.startswith('raw')]
    if ctx.thorough:
        pref = ['PoseMessage', 'MessageRequest', 'VersionInfoMessage', 'IMUOutput', 'GNSSInfoMessage', 'EventNotificationMessage']
        out += [o for o in objs if o[0] in pref]
        rest = [o for o in objs if o[0] not in pref]
        out += r.sample(rest, min(14, len(rest)))
    else:
        pref = ['PoseMessage', 'MessageRequest', 'VersionInfoMessage', 'IMUOutput']
        out += [o for o in objs if o[0] in pref]
        rest = [o for o in objs if o[0] not in pref]
        out += r.sample(rest, min(1, len(rest)))
    return out


def run(ctx):
    for g in (gen_fe, gen_c06):
        try:
            ctx.notes.append('%s: %r' % (g.__name__, g.generate()))
        except Exception as e:
            ctx.obligation('translator %s recognises the source' % g.__name__, False, 'translator', repr(e)[:400])
            ctx.coq_log = traceback.format_exc()[-2000:]
            ctx.broken_proof('translator %s no longer recognises the source it transcribes: %s' % (g.__name__, e))
    if not ctx.coq():
        ctx.broken_proof((getattr(ctx, 'pending_broken', None) or {}).get('what'))
    elif ctx.thorough and not ctx.coqchk():
        ctx.broken_proof('coqchk does not accept the compiled development')
    ctx.log('Coq done (%d obligations)' % len(ctx.obligations))
    rn = Runners()
    ctx.log('runners built')
    crc_part(ctx, rn)
    ctx.log('CRC agreement done')
    produced = enc_part(ctx, rn)
    msgs = pick_messages(ctx, produced)
    ctx.log('corrupting %d messages: %s' % (len(msgs), ', '.join('%s(%dB)' % (l.split(' ')[0] if not l.startswith('raw') else 'raw', len(b)) for l, b, _ in msgs)))
    header_object_part(ctx, rn, [m for m in msgs if len(m[1]) <= 600][:8])
    header_history_part(ctx, rn, msgs)
    ctx.log('header-object histories done')
    stream_part(ctx, rn, produced)
    ctx.log('streams done')
    corrupt_part(ctx, rn, msgs)
    ctx.coverage['rule'] = ('CRC: all 65 792 buffers of 1 and 2 bytes, random buffers (to 64 KiB) and initial values, all split points of buffers <= 64 bytes; '
                            'encoder: scenarios of 1-8 calls from counters around 0, 2^31 and 2^32, payload objects of every registered class whose default instance packs; '
                            'corruption: per message every single-bit flip of the CRC field and the protected region, every pair of flips for messages <= 64 bytes (sampled + all adjacent pairs otherwise), '
                            'bursts of width 2..32 at every start bit (end points, all ones, random interior) inside the region and inside the CRC field, and straddling bursts (information). '
                            'Every CalculateCRC(buf,len,init) probe runs at start alignments 0..7, once as the tail of an exact-size heap block (ASan reports over-reads) and once followed by non-zero bytes; whole messages are exact-size blocks at alignments 0 and 4 (framer input 0..7). Each pattern goes to MessageHeader.unpack(validate_crc=True), FusionEngineDecoder, IsValid, CalculateCRC(buffer) and the C++ framer (ASan/UBSan build). '
                            'Also: CRC buffers around 1/4/16/64 KiB and 128 KiB with splits near both ends; payloads as bytes / bytearray / memoryview; histories on one encoder (same type different sources, interleaved types, after a refused call) and on one MessageHeader (calculate_crc, pack plain / with payload / into a sentinel-filled caller buffer at an offset, unpack(validate_crc) of good and corrupted data, validate_crc of several buffers); corrupted messages inside streams of valid ones through one decoder / one framer under every warn_on_error / logging / return_* option and six chunkings (size-field shrink, growth, overflow and wrap included); sampled patterns on messages of 1 KiB, 4 KiB, 16 KiB and 70 KB. '
                            'evaluations counts patterns; distinct counts messages and CRC/encoder cases.')
    ctx.coverage['exhaustive'] = False
    ctx.trusted_base += ['Coq 8.16.1 kernel + vm_compute (order facts of the CRC register, primality of 65537 by exhaustion)',
                         'extraction (ExtrOcamlBasic only) and ocaml/c06_driver.ml',
                         'zlib.crc32 modelled as the bit-serial CRC-32 definition; struct.pack modelled as range check + little-endian fields (held by correspondence)',
                         'translators/gen_fe.py, translators/gen_c06.py (constants derived from the behaviour of the imported package and of a clang++-14 probe linked with crc.cc)',
                         'harness/py/c06_impl.py, harness/cpp/c06_crc_h.cc (ASan/UBSan build linked against the working tree crc.cc, fusion_engine_framer.cc, logging.cc)',
                         'decoder and framer are run, not modelled here (their models belong to C04/C05/C07); Base/FEFormat.judge_fe is the acceptance test they are compared with']
    ctx.assumptions += ['little-endian target with 64-bit size_t (checked by the layout probe)', 'payload objects are used only through get_type(), get_version(), pack()',
                        'header fields are non-negative integers', 'a burst is contiguous in the order the CRC consumes bits (least significant bit of each byte first)']


def replay(ctx, rec):
    case = rec.get('case') or rec.get('detail', {}).get('case') or rec
    rn = Runners()
    if case.get('op') in ('corrupt', 'validate'):
        lines = ['FM 131072', 'B ' + case['msg_hex'], 'E ' + (enc_err(bits_to_flips([tuple(b) for b in case['flips']])) or '0 00')]
        print('IMPL python    ', vf.run_lines(PYH, lines, env=vf.IMPL_ENV)[1][-1])
        print('IMPL c++       ', vf.run_lines(rn.cpp, lines, env=ASAN_ENV)[1][-1])
        print('MODEL and SPEC ', vf.run_lines(rn.model, lines)[1][-1])
        print('SPEC: J / JE are the verdicts of the CRC-32 acceptance test on the corrupted bytes (A<n> accept, R reject, M more bytes needed)')
    elif case.get('op') == 'encode' and case.get('line'):
        print('IMPL ', vf.run_lines(PYH, [case['line']], env=vf.IMPL_ENV)[1][-1][:2000])
        print('MODEL', vf.run_lines(rn.model, [case['line']])[1][-1][:2000])
        print('SPEC  every call returns a message whose sequence number is (initial + k) mod 2^32')
    elif case.get('op') == 'stream':
        print('IMPL python decoder', vf.run_lines(PYH, [case['py_line']], env=vf.IMPL_ENV)[1][-1])
        print('IMPL c++ framer    ', vf.run_lines(rn.cpp, [case['cpp_line']], env=ASAN_ENV)[1][-1])
        print('SPEC scan (lazy)   ', vf.run_lines(rn.model, ['ST lazy 16777216 ' + case['stream_hex']])[1][-1])
        print('SPEC scan (eager)  ', vf.run_lines(rn.model, ['ST eager 4072 ' + case['stream_hex']])[1][-1])
        print('(frames as <length>#<sequence>#<crc>@<offset>; corrupted message at offset %s)' % case.get('corrupted_message_offset'))
    elif case.get('op') == 'header-history':
        l = case['full_line']
        print('IMPL          ', vf.run_lines(PYH, [l], env=vf.IMPL_ENV)[1][-1])
        print('MODEL and SPEC', vf.run_lines(rn.model, [l])[1][-1])
    elif case.get('op') == 'validate-sequence':
        l = case['full_line']
        print('IMPL          ', vf.run_lines(PYH, [l], env=vf.IMPL_ENV)[1][-1])
        print('MODEL and SPEC', vf.run_lines(rn.model, [l])[1][-1])
        print('(outcomes of validate_crc on each buffer in turn, then header.crc and payload_size_bytes afterwards)')
    elif case.get('full_line'):
        l = case['full_line']
        print('IMPL python', vf.run_lines(PYH, [l], env=vf.IMPL_ENV)[1][-1])
        print('IMPL c++   ', vf.run_lines(rn.cpp, [l], env=ASAN_ENV)[1][-1])
        print('MODEL/SPEC (table-driven, bit-serial)', vf.run_lines(rn.model, [l])[1][-1])
    else:
        print(json.dumps(case)[:3000])
    return 0
