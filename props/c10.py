"""C10 — Filtered log reads return exactly the matching messages, in file order."""
import itertools, json, os, sys
import vf
from translators import gen_c10
sys.path.insert(0, os.path.join(vf.VERIF, 'harness', 'py'))
import c10_check as K

LEVEL = 'proof'
ALL_FLAGS = [list(t) for t in itertools.product([0, 1], repeat=5)]
DEFAULT_FLAGS = [1, 1, 0, 0, 0]
CORPUS = os.path.join(vf.VERIF, 'corpus', 'C10')


# ---------------------------------------------------------------------------------------------------------
# case generation
# ---------------------------------------------------------------------------------------------------------

def msgs_of_spec(spec):
    return [it for it in spec if it[0] == 'm']


def range_pool(rng, spec):
    """ranges around the log's own times: abs/rel, open/closed, integral/fractional, before/inside/after"""
    ts = sorted({it[3] for it in msgs_of_spec(spec) if it[3] is not None})
    first = ts[0] if ts else 80
    last = ts[-1] if ts else 160
    f0 = 8 * (first // 8)
    absolute_pts = sorted(set([0, max(0, first - 24), max(0, first - 8), max(0, first - 3), first, f0, f0 + 8, first + 4, first + 8, first + 11,
                               (first + last) // 2, 8 * ((first + last) // 16), last - 8 if last >= 8 else 0, last, last + 1, last + 8,
                               8 * (last // 8) + 8, last + 16, last + 80] + (rng.sample(ts, min(3, len(ts))) if ts else [])))
    # the whole real line: negative bounds, zero, bounds beyond the log on both sides, start > end, equal bounds
    absolute_pts = sorted(set(absolute_pts + [-800, -80, -8, -3, -1]))
    out = []
    for a in [None] + absolute_pts:
        for b in [None] + absolute_pts:
            if a is None and b is None:
                continue
            if a is not None and b is not None and b < a and rng.random() < 0.8:
                continue
            out.append({'start': a, 'end': b, 'abs': True, 't0': None, 'ts': False})
    rel_pts = sorted(set([0, 3, 8, 12, 16, 24, last - first, last - first + 1, last - first + 8, last - first + 16, last - first + 80,
                          max(0, (last - first) // 2)] + [k + f for k in (0, 8, 16, 8 * max(0, (last - first) // 16)) for f in (1, 4, 5, 7)]))
    rel_pts = sorted(set(rel_pts + [-(last - first) - 80, -80, -40, -8, -5, -1]))
    for a in [None] + rel_pts:
        for b in [None] + rel_pts:
            if a is None and b is None:
                continue
            if a is not None and b is not None and b < a and rng.random() < 0.8:
                continue
            out.append({'start': a, 'end': b, 'abs': False, 't0': None, 'ts': False})
            out.append({'start': a, 'end': b, 'abs': None, 't0': None, 'ts': False})
    # every representation the API accepts: absolute given or inferred ("absolute iff start or end is a Timestamp"),
    # each end a float, a Timestamp, an invalid Timestamp() or None, in all mixtures
    mixed = []
    for rs in 'ftx':
        for re_ in 'ftx':
            for given in (None, None, True, False):
                for a_none, b_none in ((False, False), (True, False), (False, True)):
                    is_ts = lambda rep, none: rep == 'x' or (rep == 't' and not none)
                    absolute = given if given is not None else (is_ts(rs, a_none) or is_ts(re_, b_none))
                    pts = absolute_pts if absolute else rel_pts
                    a = None if a_none else rng.choice(pts)
                    b = None if b_none else rng.choice(pts)
                    if a is not None and b is not None and b < a and rng.random() < 0.8:
                        a, b = b, a
                    mixed.append({'start': a, 'end': b, 'abs': given, 't0': None, 'rs': rs, 're': re_})
    rng.shuffle(mixed)
    out = out + mixed[:60]
    rng.shuffle(out)
    extra = []
    for r in out[:12]:
        # Timestamp arguments (absolute unless told otherwise), and a caller-supplied t0 (whole and fractional)
        if 'rs' in r:
            continue
        if r['abs']:
            extra.append(dict(r, ts=True, abs=None))
        else:
            extra.append(dict(r, t0=rng.choice([first, f0, max(0, f0 - 8), first + 3, 0])))
    must = [{'start': -80, 'end': -40, 'abs': False, 't0': None, 'ts': False}, {'start': -8, 'end': None, 'abs': False, 't0': None, 'ts': False},
            {'start': -8, 'end': None, 'abs': True, 't0': None, 'ts': False}, {'start': None, 'end': -8, 'abs': False, 't0': None, 'ts': False},
            {'start': -80, 'end': -40, 'abs': None, 't0': None, 'rs': 't', 're': 't'}, {'start': 0, 'end': None, 'abs': False, 't0': None, 'ts': False},
            {'start': 0, 'end': None, 'abs': True, 't0': None, 'ts': False}, {'start': 0, 'end': None, 'abs': None, 't0': None, 'rs': 't', 're': 'f'},
            {'start': None, 'end': 0, 'abs': True, 't0': None, 'ts': False}, {'start': None, 'end': 0, 'abs': False, 't0': None, 'ts': False},
            {'start': last, 'end': first, 'abs': True, 't0': None, 'ts': False}]
    out = must + out + extra + [{'start': None, 'end': None, 'abs': False, 't0': None, 'ts': False},
                         {'start': None, 'end': None, 'abs': True, 't0': None, 'ts': False}]
    rng.shuffle(out)
    return must + out


def boundaries(spec_msgs_sizes):
    return []


def cases_for_log(ctx, spec, budget):
    """a product sampled along each axis in turn, the other axes drawn at random"""
    rng = ctx.rng
    ms = msgs_of_spec(spec)
    present_types = sorted({m[1] for m in ms})
    present_srcs = sorted({m[2] for m in ms})
    rp = range_pool(rng, spec)
    tsel = present_types[:]
    rng.shuffle(tsel)
    tsel = tsel[:4]
    type_sets = [None] + [list(s) for n in range(1, len(tsel) + 1) for s in itertools.combinations(tsel, n)] + [[K.UNK2 + 7]] + [[]]
    src_sets = [None] + [list(s) for n in range(1, len(present_srcs) + 1) for s in itertools.combinations(present_srcs, n)] + [[9], present_srcs[:1] + [9], []]
    out = []

    def rnd_flags():
        return rng.choice([DEFAULT_FLAGS, [1, 1, 0, 1, 1], [0, 1, 1, 1, 0], rng.choice(ALL_FLAGS)])

    def mk(**kw):
        c = {'log': spec, 'flags': DEFAULT_FLAGS, 'max_bytes': None, 'srcs': None, 'srcs_form': None, 'types': None, 'types_form': None, 'range': None,
             'late_srcs': None, 'late_form': None, 'options': None}
        c.update(kw)
        out.append(c)
    mk()
    # axis: all 32 flag combinations, without and with a filter combination
    for fl in ALL_FLAGS:
        mk(flags=fl)
        mk(flags=fl, types=rng.choice(type_sets), range=rng.choice(rp) if rng.random() < 0.6 else None,
           srcs=rng.choice(src_sets) if rng.random() < 0.3 else None)
    # axis: type subsets x ranges
    for ts in type_sets:
        mk(types=ts, flags=rnd_flags())
        for r in rng.sample(rp, min(len(rp), max(1, budget // 40))):
            mk(types=ts, range=r, flags=rnd_flags())
    # axis: type filters of every size (1 .. 40 requested types, most of them absent from the log, spread over the
    # 16-bit range, with duplicates and in every container form), alone and with a range
    if len(present_types) >= 2:
        for ts, form in K.type_requests(rng, present_types):
            mk(types=ts, types_form=form, flags=rnd_flags())
            if rng.random() < 0.4:
                mk(types=ts, types_form=form, range=rng.choice(rp), flags=rnd_flags())
    # axis: type filters made only of untimed types (their place in a time range comes from the timed messages they exclude)
    untimed_present = sorted({m[1] for m in ms if m[3] is None and m[1] not in K.TIMED})
    if untimed_present:
        for ts in [untimed_present] + [[t] for t in untimed_present]:
            for r in rng.sample(rp, min(len(rp), 10)):
                mk(types=ts, range=r, flags=rnd_flags())
    # axis: argument forms: one type / one source id given bare, lists and tuples
    for t in present_types[:3]:
        mk(types=[t], types_form=rng.choice(['single', 'single_class']), range=rng.choice([None, rng.choice(rp)]), flags=rnd_flags())
    for ss in src_sets:
        if ss is not None:
            mk(srcs=ss, srcs_form=rng.choice(['int', 'list', 'tuple']), types=rng.choice(type_sets), flags=rnd_flags())
    # axis: falsy but meaningful values given bare and in containers: type 0 (MessageType.INVALID), source id 0, an empty
    # source request (nothing), an empty type request (no filter), whether or not the log contains type 0 / source 0
    for form in ('single', 'set', 'list', 'tuple', 'gen'):
        mk(types=[K.INVALID0], types_form=form, flags=rnd_flags())
        mk(types=[K.INVALID0], types_form=form, range=rng.choice(rp), srcs=rng.choice(src_sets), flags=rnd_flags())
    for form in ('int', 'set', 'list', 'gen', 'ndarray'):
        mk(srcs=[0], srcs_form=form, flags=rnd_flags())
        mk(srcs=[0], srcs_form=form, types=rng.choice(type_sets), range=rng.choice([None, rng.choice(rp)]), flags=rnd_flags())
    mk(late_srcs=[0], late_form='list')      # (a bare int is accepted by the constructor only: filter_in_place is typed Iterable[int])
    for form in ('set', 'list', 'tuple', 'frozenset'):
        mk(srcs=[], srcs_form=form)
        mk(types=[], types_form=form if form != 'frozenset' else 'set', srcs=rng.choice(src_sets))
    # axis: iterable arguments that can be consumed only once, or are not plain containers
    for form in ('gen', 'iter', 'map', 'filter', 'keys', 'frozenset', 'ndarray', 'range'):
        ss = rng.choice([x for x in src_sets if x])
        mk(srcs=ss, srcs_form=form, flags=rnd_flags())
        mk(srcs=ss, srcs_form=form, types=rng.choice(type_sets), range=rng.choice([None, rng.choice(rp)]), flags=rnd_flags())
        mk(late_srcs=ss, late_form=form, flags=rnd_flags())
    for form in ('gen', 'iter', 'map', 'filter', 'keys', 'frozenset'):
        ts = rng.choice([x for x in type_sets if x])
        mk(types=ts, types_form=form, flags=rnd_flags())
        mk(types=ts, types_form=form, range=rng.choice(rp), srcs=rng.choice(src_sets), flags=rnd_flags())
    # axis: options that must not matter (progress / gap warnings, the index loaded from a file saved by an earlier open)
    for _ in range(12):
        mk(options={'index': rng.choice(['saved', 'saved', 'fresh']), 'warn_on_gaps': rng.random() < 0.5, 'show_progress': rng.random() < 0.5},
           types=rng.choice(type_sets), range=rng.choice([None, rng.choice(rp)]), srcs=rng.choice(src_sets) if rng.random() < 0.3 else None,
           flags=rnd_flags())
    # axis: a source filter with every flag combination that lacks the header (the sampling forces return_header on and
    # must restore it)
    for ss in src_sets:
        if ss is not None:
            for fl in ([0, 1, 0, 0, 0], [0, 0, 1, 1, 0], [0, 0, 0, 0, 1], [0, 0, 0, 0, 0], [0, 1, 1, 1, 1]):
                mk(srcs=ss, flags=fl, types=rng.choice([None, rng.choice(type_sets)]))
    # axis: ranges alone and with sources
    for r in rp[:max(8, budget // 8)]:
        mk(range=r, flags=rnd_flags())
        if rng.random() < 0.4:
            mk(range=r, srcs=rng.choice(src_sets), flags=rnd_flags())
    # axis: source sets (constructor and late)
    for ss in src_sets:
        mk(srcs=ss, flags=rnd_flags())
        mk(srcs=ss, types=rng.choice(type_sets), range=rng.choice(rp) if rng.random() < 0.5 else None, flags=rnd_flags())
        if ss is not None:
            mk(late_srcs=ss, types=rng.choice(type_sets), flags=rnd_flags())
    # axis: max_bytes — filled in by the caller once message offsets are known (needs the built log)
    return out


def max_bytes_cases(ctx, spec, msgs, fsize, per_boundary=1):
    rng = ctx.rng
    out = []
    pts = set([0, 1, 23, 24, 25, fsize - 1, fsize, fsize + 1])
    for m in msgs:
        for d in (-1, 0, 1):
            pts.add(m['off'] + d); pts.add(m['off'] + K.HEADER_SIZE + d); pts.add(m['off'] + m['size'] + d)
    present_types = sorted({m['type'] for m in msgs})
    present_srcs = sorted({m['src'] for m in msgs})
    rp = range_pool(rng, spec)
    # the limit falls inside / at the end of message k while type, source or time filters skip message k: the
    # messages after it must still be cut (and the ones before it returned), also when only index-derived pieces are asked for
    for k, m in enumerate(msgs):
        for p in (m['off'] + 1, m['off'] + K.HEADER_SIZE, m['off'] + m['size'] // 2, m['off'] + m['size'] - 1, m['off'] + m['size']):
            fl = rng.choice([[0, 0, 0, 1, 1], [0, 0, 0, 0, 1], [0, 0, 0, 0, 0], [0, 0, 0, 1, 0], DEFAULT_FLAGS])
            other_types = [t for t in present_types if t != m['type']]
            other_srcs = [x for x in present_srcs if x != m['src']]
            if other_types:
                out.append({'log': spec, 'flags': fl, 'max_bytes': p, 'srcs': None, 'types': other_types, 'range': None, 'late_srcs': None})
            if other_srcs:
                out.append({'log': spec, 'flags': fl, 'max_bytes': p, 'srcs': other_srcs, 'types': None, 'range': None, 'late_srcs': None})
            if m['t8'] is not None and rng.random() < 0.5:
                out.append({'log': spec, 'flags': fl, 'max_bytes': p, 'srcs': None, 'types': None, 'late_srcs': None,
                            'range': {'start': m['t8'] + 1, 'end': None, 'abs': True, 't0': None, 'ts': False}})
    for p in sorted(x for x in pts if x >= 0):
        out.append({'log': spec, 'flags': rng.choice([DEFAULT_FLAGS, [1, 0, 0, 1, 1], [0, 0, 1, 1, 0], [0, 0, 0, 1, 1], [0, 0, 0, 0, 1]]), 'max_bytes': p,
                    'srcs': None, 'types': None, 'range': None, 'late_srcs': None})
        if rng.random() < 0.5:
            out.append({'log': spec, 'flags': rng.choice(ALL_FLAGS), 'max_bytes': p,
                        'srcs': rng.choice([None, present_srcs[:1]]) if present_srcs else None,
                        'types': rng.choice([None, rng.sample(present_types, min(2, len(present_types)))]) if present_types else None,
                        'range': rng.choice([None, rng.choice(rp)]), 'late_srcs': None})
    return out


def gen_logs(ctx):
    rng = ctx.rng
    logs = [(s, 'fixed') for s in K.fixed_logs()]
    n_random = 400 if ctx.thorough else 30
    for i in range(n_random):
        logs.append((K.random_log(rng, nmax=rng.choice([4, 8, 12])), 'random'))
    logs.append((K.late_source_log(rng), 'late-source'))
    for n in ((16, 25, 40, 60) if ctx.thorough else (16, 25)):
        logs.append((K.rich_log(rng, n), 'rich'))
    if ctx.thorough:
        for _ in range(10):
            logs.append((K.random_log(rng, nmax=30, nsrc=3), 'random'))
        logs.append((K.late_source_log(rng, n=K.POPULATE_COUNT + 5), 'late-source'))
    return logs


# ---------------------------------------------------------------------------------------------------------
# evaluation: IMPL, MODEL, SPEC on the same cases
# ---------------------------------------------------------------------------------------------------------

class Evaluator:
    def __init__(self, ctx):
        self.ctx = ctx
        self.model = vf.build_extracted('c10', 'C10', 'c10_driver.ml')
        self.logs = {}       # logkey -> {'msgs', 'data', 'base'}
        self.n = 0

    def impl(self, cases, tag):
        for c in cases:
            c['logkey'] = K.logkey(c['log'])
            if 'id' not in c:
                c['id'] = 'c%d' % self.n
                self.n += 1
        outs = K.run_impl('c10_impl.py', cases, self.ctx.tmp, tag)
        for o in outs.values():
            if 'msgs' in o:
                case = next(c for c in cases if c['id'] == o['id'])
                self.logs[case['logkey']] = {'msgs': o['msgs'], 'base': o['base'], 'data': open(o['path'], 'rb').read()}
        return outs

    def model_lines(self, cases, outs):
        ml, sl, ll = [], [], []
        for c in cases:
            lg = self.logs[c['logkey']]
            rs = outs[c['id']].get('range_state')
            # the SPEC takes the range as requested (normalised as TimeRange documents, C13); the MODEL takes the state of
            # the TimeRange object the implementation built
            rq = K.normalise_range(c['range'])
            tail = ' '.join([K.file_tokens(lg['msgs'], len(lg['data'])), K.cfg_tokens(c['max_bytes'], c['flags']),
                             K.zl(c['srcs']), K.zl(c['types']), K.range_tokens(rs)])
            if c.get('late_srcs') is not None:
                ml.append('ML F ' + tail + ' ' + K.zl(c['late_srcs']))
                ll.append('ML L ' + tail + ' ' + K.zl(c['late_srcs']))
                # SPEC: the late source filter is just a source filter
                tail_s = ' '.join([K.file_tokens(lg['msgs'], len(lg['data'])), K.cfg_tokens(c['max_bytes'], c['flags']),
                                   K.zl(c['late_srcs']), K.zl(c['types']), K.range_tokens(rq)])
                sl.append('S F ' + tail_s)
            else:
                ml.append('M F ' + tail)
                ll.append('M L ' + tail)
                sl.append('S F ' + ' '.join([K.file_tokens(lg['msgs'], len(lg['data'])), K.cfg_tokens(c['max_bytes'], c['flags']),
                                             K.zl(c['srcs']), K.zl(c['types']), K.range_tokens(rq)]))
        return ml, sl, ll

    def run(self, cases, tag, with_legacy=False):
        outs = self.impl(cases, tag)
        ml, sl, ll = self.model_lines(cases, outs)
        m = vf.run_parallel(self.model, ml)
        s = vf.run_parallel(self.model, sl)
        l = vf.run_parallel(self.model, ll) if with_legacy else [None] * len(cases)
        recs = {}
        for c, a, b, d in zip(cases, m, s, l):
            lg = self.logs[c['logkey']]
            by_off = {x['off']: x for x in lg['msgs']}
            recs[c['id']] = {'impl': outs[c['id']], 'model': K.parse_read(a, lg['data'], by_off), 'spec': K.parse_read(b, lg['data'], by_off),
                             'legacy': K.parse_read(d, lg['data'], by_off) if d is not None else None, 'log': lg}
        return recs


def sampled_available(msgs, requested, max_bytes, n=None):
    """the documented sampling rule of _populate_available_source_ids (first n messages of each type that the
    read-time tests let through) — used only to CLASSIFY a violation as the recorded source-id finding"""
    avail = set()
    n = n or K.POPULATE_COUNT
    for ty in sorted({m['type'] for m in msgs}):
        k = 0
        for m in msgs:
            if m['type'] != ty:
                continue
            if max_bytes is not None and m['off'] + m['size'] > max_bytes:
                break
            if requested is not None and m['src'] not in requested:
                continue
            avail.add(m['src']); k += 1
            if k >= n:
                break
    return avail


def features(c):
    return '+'.join(k for k in ('types', 'srcs', 'late_srcs', 'range', 'max_bytes') if c.get(k) is not None) or 'none'


def judge(c, rec):
    """-> list of ('violation', signature, text) / ('correspondence', None, text)"""
    out = []
    impl, spec, model, lg = rec['impl'], rec['spec'], rec['model'], rec['log']
    msgs = lg['msgs']
    by_off = {m['off']: m for m in msgs}
    want_base = [[['H', lg['data'][m['off']:m['off'] + K.HEADER_SIZE].hex()], ['P', None if m['cls'] is None else [m['cls'], m['t8']]],
                  ['B', lg['data'][m['off']:m['off'] + m['size']].hex()], ['O', m['off']], ['I', m['idx']]] for m in msgs]
    if lg['base'] != want_base:
        bad = next((i for i, (a, b) in enumerate(zip(lg['base'], want_base)) if a != b), min(len(lg['base']), len(want_base)))
        out.append(('violation', {'outcome': 'unfiltered-read-differs', 'class': 'other', 'features': 'none'},
                    'the unfiltered read with every return_* option on is not the list of messages written into the file: %d yielded, %d written; first difference at message %d: %s vs %s'
                    % (len(lg['base']), len(want_base), bad, json.dumps(lg['base'][bad:bad + 1])[:300], json.dumps(want_base[bad:bad + 1])[:300])))
        return out
    if spec[0] != 'ok':
        out.append(('correspondence', None, 'SPEC runner failed: %r' % (spec,)))
        return out
    spec_offs = [o for o, _ in spec[1]]
    spec_res = [p for _, p in spec[1]]
    sig = None
    if 'err' in impl:
        cls = 'exception-' + impl['err']
        timed_indexed = any(m['t8'] is not None for m in msgs)
        if impl['err'] == 'IndexError' and c.get('range') is not None and not timed_indexed:
            cls = 'time-range-on-log-without-p1-time'
        if impl['err'] == 'UnboundLocalError':
            cls = 'payload-unbound'
        sig = {'outcome': 'exception', 'exception': impl['err'], 'class': cls, 'features': features(c),
               'return_payload': bool(c['flags'][1])}
        text = 'reader raised %s (%s); the filter over the unfiltered log gives %d messages' % (impl['err'], impl.get('msg', ''), len(spec_offs))
    elif impl['res'] != spec_res:
        shadow = impl.get('shadow')
        offs = shadow if isinstance(shadow, list) else None
        extra = [o for o in (offs or []) if o not in spec_offs]
        missing = [o for o in spec_offs if o not in (offs or [])] if offs is not None else []
        if offs is None or (not extra and not missing):
            outcome = 'pieces' if len(impl['res']) == len(spec_res) else 'count'
        elif offs != sorted(offs):
            outcome = 'order'
        else:
            outcome = '+'.join(k for k, v in (('extra', extra), ('missing', missing)) if v)
        cls = 'other'
        req = c['late_srcs'] if c.get('late_srcs') is not None else c.get('srcs')
        if outcome == 'missing' and req is not None:
            avail = sampled_available(msgs, c.get('srcs'), c.get('max_bytes'))
            if all(by_off[o]['src'] not in avail for o in missing):
                cls = 'source-id-first-seen-after-sample'
        if cls == 'other' and c.get('range') is not None:
            untimed_only = all(by_off[o]['t8'] is None for o in extra + missing)
            if outcome == 'extra' and offs == [m['off'] for m in msgs if m['off'] in offs] and len(spec_offs) == 0 and not untimed_only:
                cls = 'range-after-log-returns-log'
            elif untimed_only and c.get('types') is not None:
                cls = 'untimed-positioned-among-selected-types'
        sig = {'outcome': outcome, 'class': cls, 'features': features(c)}
        text = ('reader returned messages at offsets %s; the filter over the unfiltered log gives %s (extra %s, missing %s)%s'
                % (offs, spec_offs, extra, missing, '' if outcome not in ('pieces', 'count') else '; yielded pieces differ: %s vs %s' % (json.dumps(impl['res'])[:300], json.dumps(spec_res)[:300])))
    if sig is not None:
        out.append(('violation', sig, text))
    # a caller that keeps the results (list(reader)) must see what the loop body saw, and no two results may share a
    # mutable piece
    if 'res' in impl and (impl.get('res_after', impl['res']) != impl['res'] or impl.get('alias')):
        k = next((i for i, (a, b) in enumerate(zip(impl['res'], impl.get('res_after', impl['res']))) if a != b), None)
        out.append(('violation', {'outcome': 'retained-results-differ', 'class': 'pieces-aliased-across-results', 'features': features(c),
                                  'pieces': ''.join(impl.get('alias') or [])},
                    'results kept after the iteration (list(reader)) are not what was yielded: pieces sharing one object across results: %s; %s'
                    % (impl.get('alias'), 'no value difference' if k is None else 'result %d was %s when yielded and is %s after the iteration'
                       % (k, json.dumps(impl['res'][k])[:200], json.dumps(impl['res_after'][k])[:200]))))
    if impl.get('inputs_same') is False:
        out.append(('violation', {'outcome': 'arguments-modified', 'class': 'caller-arguments-modified', 'features': features(c)},
                    'the TimeRange / message_types / source_ids objects handed to the reader were modified by it'))
    if 'res' in impl and impl.get('flags_after') is not None and impl['flags_after'] != [int(bool(x)) for x in c['flags']]:
        out.append(('violation', {'outcome': 'options-changed', 'class': 'return-options-not-restored', 'features': features(c)},
                    'return_* options after construction and iteration are %s, requested %s' % (impl['flags_after'], c['flags'])))
    # text-level oracle on the time bounds (independent of the Coq SPEC)
    if 'res' in impl and isinstance(impl.get('shadow'), list) and c.get('range') is not None:
        out += time_oracle(c, rec)
    if sig is None:
        mres = ('err', model[1]) if model[0] == 'err' else ('ok', [p for _, p in model[1]]) if model[0] == 'ok' else model
        ires = ('err', impl['err']) if 'err' in impl else ('ok', impl['res'])
        if mres != ires:
            out.append(('correspondence', None, 'MODEL and implementation differ: model %s, implementation %s' % (json.dumps(mres)[:400], json.dumps(ires)[:400])))
        if isinstance(impl.get('shadow'), list) and 'res' in impl and len(impl['shadow']) != len(impl['res']):
            out.append(('violation', {'outcome': 'flag-dependent-selection', 'class': 'other', 'features': features(c)},
                        'the set of messages returned depends on the return_* options: %d with the requested options, %d with all options on' % (len(impl['res']), len(impl['shadow']))))
    return out


def time_oracle(c, rec):
    """property text: bounds exact when t0/start/end are whole seconds; otherwise nothing >= 2 s outside is admitted
    and nothing >= 1 s inside is omitted.  'Requested interval' is relative to the log's first P1 time (or the
    caller's t0) for relative ranges."""
    out = []
    msgs = rec['log']['msgs']
    rs = K.normalise_range(c.get('range'))
    if rs is None or (rs['start'] is None and rs['end'] is None):
        return out
    timed = [m for m in msgs if m['t8'] is not None]
    if not timed:
        return out
    t0 = 0 if rs['abs'] else (rs['t0'] if rs['t0'] is not None else timed[0]['t8'])
    A = None if rs['start'] is None else t0 + rs['start']
    B = None if rs['end'] is None else t0 + rs['end']
    whole = all(x is None or x % 8 == 0 for x in (A, B)) and t0 % 8 == 0
    got = set(rec['impl']['shadow'])
    types = c.get('types') if c.get('types') else None
    req = c['late_srcs'] if c.get('late_srcs') is not None else c.get('srcs')
    for m in timed:
        other_ok = ((types is None or m['type'] in types) and (req is None or m['src'] in req)
                    and (c.get('max_bytes') is None or m['off'] + m['size'] <= c['max_bytes']))
        t = m['t8']
        inside = (A is None or A <= t) and (B is None or t < B)
        if m['off'] in got:
            bad = (not inside) if whole else ((A is not None and t <= A - 16) or (B is not None and t >= B + 16))
            if bad:
                out.append(('violation', {'outcome': 'time-bound', 'class': 'admits-outside' + ('-exact' if whole else '-2s'), 'features': features(c)},
                            'message with P1 time %s s returned for the interval [%s, %s) s' % (t / 8, None if A is None else A / 8, None if B is None else B / 8)))
        elif other_ok:
            bad = inside if whole else ((A is None or t >= A + 8) and (B is None or t < B - 8))
            if bad:
                out.append(('violation', {'outcome': 'time-bound', 'class': 'omits-inside' + ('-exact' if whole else '-1s'), 'features': features(c)},
                            'message with P1 time %s s omitted for the interval [%s, %s) s' % (t / 8, None if A is None else A / 8, None if B is None else B / 8)))
    return out[:1]


# ---------------------------------------------------------------------------------------------------------
# shrinking
# ---------------------------------------------------------------------------------------------------------

def shrink(ev, case, sig, rounds=12):
    cur = {k: case.get(k) for k in ('log', 'flags', 'max_bytes', 'srcs', 'srcs_form', 'types', 'types_form', 'range', 'late_srcs', 'late_form', 'options')}
    for rnd in range(rounds):
        cands = []
        log = cur['log']
        for i in range(len(log)):
            cands.append(dict(cur, log=log[:i] + log[i + 1:]))
        for k in ('max_bytes', 'srcs', 'types', 'range', 'late_srcs'):
            if cur[k] is not None:
                cands.append(dict(cur, **{k: None}))
        if cur['types'] and len(cur['types']) > 1:
            for i in range(len(cur['types'])):
                cands.append(dict(cur, types=cur['types'][:i] + cur['types'][i + 1:]))
        if cur['flags'] != DEFAULT_FLAGS:
            cands.append(dict(cur, flags=DEFAULT_FLAGS))
        if cur['range'] is not None:
            for k in ('start', 'end', 't0'):
                if cur['range'].get(k) is not None:
                    cands.append(dict(cur, range=dict(cur['range'], **{k: None})))
        if cur['max_bytes'] is not None:
            cands = [c for c in cands if c['log'] == cur['log']] + [c for c in cands if c['log'] != cur['log']]
        cands = [dict(c, id='s%d_%d' % (rnd, i)) for i, c in enumerate(cands)]
        if not cands:
            break
        try:
            recs = ev.run(cands, 'shrink%d' % rnd)
        except Exception:
            break
        nxt = None
        for c in cands:
            for kind, s, _ in judge(c, recs[c['id']]):
                if kind == 'violation' and s.get('class') == sig.get('class') and s.get('outcome') == sig.get('outcome'):
                    nxt = c
                    break
            if nxt:
                break
        if nxt is None:
            break
        cur = {k: nxt[k] for k in cur}
    return cur


# ---------------------------------------------------------------------------------------------------------

def describe(c, rec):
    lg = rec['log']
    return {'log_spec': c['log'], 'messages': [[m['off'], m['size'], m['type'], m['src'], m['t8']] for m in lg['msgs']],
            'flags_header_payload_bytes_offset_index': c['flags'], 'max_bytes': c['max_bytes'], 'source_ids': c['srcs'],
            'late_source_ids': c.get('late_srcs'), 'message_types': c['types'], 'time_range_eighths': c['range'],
            'impl': rec['impl'].get('err') or rec['impl'].get('shadow'),
            'spec_offsets': [o for o, _ in rec['spec'][1]] if rec['spec'][0] == 'ok' else rec['spec'],
            'model': [o for o, _ in rec['model'][1]] if rec['model'][0] == 'ok' else rec['model'],
            'case': {k: c.get(k) for k in ('log', 'flags', 'max_bytes', 'srcs', 'srcs_form', 'types', 'types_form', 'range', 'late_srcs', 'late_form', 'options')}}


def run(ctx):
    try:
        consts = gen_c10.generate()
    except Exception as e:      # a translator failure is a failed obligation; the search for a failing input still runs
        ctx.obligation('translators/gen_c10.py evaluates the reader / indexer constants', False, 'translator', repr(e)[:400])
        ctx.broken_proof('translator gen_c10 failed: %r' % (e,))
        consts = {'header_size': K.HEADER_SIZE, 'populate_count': K.POPULATE_COUNT}
    K.set_consts(consts)
    ctx.notes.append('generated constants: %r' % consts)
    if not ctx.coq():
        ctx.broken_proof()
    elif ctx.thorough:
        K.coqchk(ctx, 'C10')
    ev = Evaluator(ctx)
    # corpus first
    cases = []
    if os.path.isdir(CORPUS):
        for fn in sorted(os.listdir(CORPUS)):
            if fn.endswith('.json'):
                c = json.load(open(os.path.join(CORPUS, fn)))
                cases.append(dict(c.get('case', c), origin='corpus:' + fn))
    logs = gen_logs(ctx)
    budget = 600 if ctx.thorough else 160
    for spec, origin in logs:
        for c in cases_for_log(ctx, spec, budget):
            cases.append(dict(c, origin=origin))
    for c in cases:
        c.pop('id', None)
    ctx.log('generated %d cases on %d logs' % (len(cases), len(logs)))
    recs = ev.run(cases, 'main')
    # max_bytes axis needs the built offsets
    mb_cases = []
    seen = set()
    for c in cases:
        if c['logkey'] in seen or c['origin'].startswith('corpus'):
            continue
        seen.add(c['logkey'])
        lg = ev.logs[c['logkey']]
        if len(lg['msgs']) <= 14 and max(m['size'] for m in lg['msgs'] or [{'size': 0}]) < 1000:
            mb_cases += [dict(x, origin=c['origin']) for x in max_bytes_cases(ctx, c['log'], lg['msgs'], len(lg['data']))]
    # one log larger than a read block: max_bytes truncates the index to whole blocks
    big = K.big_log(ctx.rng, 620 if not ctx.thorough else 1300)
    for mb in [None, 1, 81919, 81920, 81921, 90000, 163840, 163841, 200000]:
        mb_cases.append({'log': big, 'flags': [0, 0, 0, 1, 1], 'max_bytes': mb, 'srcs': None, 'types': None, 'range': None, 'late_srcs': None, 'origin': 'big'})
    mb_cases.append({'log': big, 'flags': [0, 0, 0, 1, 1], 'max_bytes': 81930, 'srcs': [1], 'types': [K.POSE], 'late_srcs': None, 'origin': 'big',
                     'range': {'start': 80, 'end': 400, 'abs': False, 't0': None, 'ts': False}})
    # a log of more than 1000 messages with all seven types: type filters of every size
    rich_big = K.rich_log(ctx.rng, 1100 if not ctx.thorough else 2500)
    for ts, form in K.type_requests(ctx.rng, K.ALL_TYPES, sizes=[1, 3, 6, 13, 20, 26, 27, 28, 30, 35, 40, 45] if not ctx.thorough else None):
        mb_cases.append({'log': rich_big, 'flags': [0, 0, 0, 1, 1], 'max_bytes': None, 'srcs': None, 'types': ts, 'types_form': form, 'range': None,
                         'late_srcs': None, 'origin': 'rich-big'})
    ctx.log('generated %d max_bytes cases' % len(mb_cases))
    recs.update(ev.run(mb_cases, 'mb'))
    cases += mb_cases

    shrunk = set()
    for c in cases:
        rec = recs[c['id']]
        nm = len(rec['log']['msgs'])
        key = (c['logkey'], json.dumps([c['flags'], c['max_bytes'], c['srcs'], c.get('srcs_form'), c['types'], c.get('types_form'), c['range'], c.get('late_srcs'), c.get('late_form'), c.get('options')]))
        ctx.case(key, nontrivial=nm > 0)
        ctx.count('log:' + c['origin'].split(':')[0])
        ctx.count('filters:' + features(c))
        if c['types'] is not None:
            ctx.count('types-requested:%s' % ('1-4' if len(c['types']) <= 4 else '5-12' if len(c['types']) <= 12 else '13-20' if len(c['types']) <= 20 else '21+'))
        ctx.count('flags:' + ''.join(str(int(x)) for x in c['flags']))
        if c['range'] is not None:
            rs = rec['impl'].get('range_state') or {}
            ctx.count('range-given:abs=%s,start=%s,end=%s' % (c['range']['abs'], c['range'].get('rs', 't' if c['range'].get('ts') else 'f') if c['range']['start'] is not None or c['range'].get('rs') == 'x' else '-',
                                                             c['range'].get('re', 't' if c['range'].get('ts') else 'f') if c['range']['end'] is not None or c['range'].get('re') == 'x' else '-'))
            ctx.count('range:%s:%s%s' % ('abs' if rs.get('abs') else 'rel', 'open' if rs.get('start') is None else 'start', 'open' if rs.get('end') is None else 'end'))
            if K.normalise_range(c['range']) != {k: (None if v is None else int(v)) if k != 'abs' else v for k, v in rs.items()}:
                ctx.broken_correspondence('TimeRange state reported by the implementation differs from the normalisation the check assumes',
                                          {'range': c['range'], 'state': rs})
        if 'err' in rec['impl']:
            ctx.count('outcome:exception:' + rec['impl']['err'])
        else:
            ctx.count('outcome:%s' % ('empty' if not rec['impl']['res'] else 'all' if len(rec['impl']['res']) == nm else 'some'))
        for kind, sig, text in judge(c, rec):
            if kind == 'violation':
                sc = c
                if (sig['class'], sig['outcome']) not in shrunk and not any(
                        f.get('status') == 'known' and all(sig.get(k) == v for k, v in f.get('match', {}).items()) for f in ctx.findings):
                    shrunk.add((sig['class'], sig['outcome']))
                    small = shrink(ev, c, sig)
                    small = dict(small, id='final%d' % len(shrunk), origin='shrunk')
                    r2 = ev.run([small], 'final%d' % len(shrunk), with_legacy=True)
                    j2 = [x for x in judge(small, r2[small['id']]) if x[0] == 'violation']
                    if j2:
                        sc, rec, sig, text = small, r2[small['id']], j2[0][1], j2[0][2]
                ctx.violation(sig, text, describe(sc, rec))
            else:
                ctx.broken_correspondence(text, describe(c, rec))
    done = [c for c in cases if 'res' in recs[c['id']]['impl'] and recs[c['id']]['impl']['res']]
    for c in done[:: max(1, len(done) // 5)][:5]:
        ctx.sample({'messages': [[m['off'], m['size'], m['type'], m['src'], m['t8']] for m in recs[c['id']]['log']['msgs']][:12],
                    'filters': {k: c[k] for k in ('flags', 'max_bytes', 'srcs', 'types', 'range')},
                    'returned_offsets': recs[c['id']]['impl'].get('shadow')})
    ctx.coverage['rule'] = ('logs: %d hand-written shapes + random logs of <= 12 (thorough: 30) messages with P1-timed / untimed / invalid-P1 messages of 7 types '
                            '(2 without a payload class), 1-3 source ids, junk (incl. bare sync bytes) between messages, one log with a source id first '
                            'seen after 12 messages of its type, one log > 80 KiB; per log: all 32 return_* combinations (with and without filters), all subsets '
                            'of <= 4 present types (+ an absent type) and type filters of 1 .. 40 requested types (mostly absent, spread over the 16-bit range, duplicates, set / list / tuple / payload classes) on logs with 7 present types incl. one of > 1000 messages, x sampled ranges (absolute given or inferred, each end a float / Timestamp / invalid Timestamp / None in all mixtures, preset t0, open and closed, '
                            'whole and fractional, before / inside / after the log), all subsets of present source ids (+ an absent one) through the constructor '
                            'and through filter_in_place, max_bytes at every message start / header end / message end +-1. fractional first P1 time with fractional relative ends, large messages (1 KiB .. 16 384 B), P1 times up to 1.3e9 s; max_bytes inside a message that the type / source / time filter skips, with index-only flag sets; bare / list / tuple / generator / iterator / map / dict-keys / frozenset / numpy / range argument forms, falsy-but-meaningful values (type 0, source 0, empty requests), negative / reversed / equal time bounds; index loaded from a saved file, progress / gap-warning options, .p1log / .bin file names; caller arguments and return_* options unchanged afterwards. A case is distinct by (log, options); '
                            'non-trivial when the log is not empty. Every case is run a second time with all return_* options on to identify the messages returned; yielded pieces are compared both inside the loop and after collecting all results (list(reader)), and header / payload objects must be distinct between results.') % len(K.fixed_logs())
    ctx.coverage['exhaustive'] = False
    ctx.trusted_base += ['Coq 8.16.1 kernel + vm_compute', 'extraction (ExtrOcamlBasic only), ocaml/conv.ml + c10_driver.ml',
                         'hand transcription of MixedLogReader.__init__/_read_next/filter_in_place/_populate_available_source_ids and FileIndex.__getitem__/get_time_range '
                         '(Models/LogReaderM.v, Models/FileIndexOpsM.v), held by the differential run',
                         'numpy modelled: boolean-mask / slice indexing, np.isin, np.unique, np.argmax, np.floor, NaN comparisons False',
                         'translators/gen_c10.py (ast evaluation of header format size, _READ_SIZE_BYTES, _MAX_FE_MSG_SIZE_BYTES, populate sample size)',
                         'harness/py/c10_logs.py + c10_impl.py (log construction with the library encoder, canonical printing of yielded pieces)',
                         'the list of messages of a log = what the unfiltered read returns (checked on every generated log); that the indexer finds exactly the scan-accepted messages is C08']
    ctx.assumptions += ['P1 times do not decrease along the file (documented assumption of TimeRange / FileIndex)',
                        'times and bounds are multiples of 1/8 s in the generated cases, so binary64 arithmetic in the implementation is exact and the integer model applies',
                        'the TimeRange object is taken in the state its constructor leaves it in (normalisation of 0 / inf / invalid Timestamp is C13)',
                        'messages are smaller than _MAX_FE_MSG_SIZE_BYTES; index files are not used (save_index=False, ignore_index=True; persistence is C09)']


def replay(ctx, rec):
    case = rec.get('case', rec)
    case = case.get('case', case)
    K.set_consts(gen_c10.generate())
    ev = Evaluator(ctx)
    c = dict(case, id='replay', origin='replay')
    r = ev.run([c], 'replay', with_legacy=True)[c['id']]
    lg = r['log']
    print('log messages (offset, size, type, source, P1 time in 1/8 s):', [[m['off'], m['size'], m['type'], m['src'], m['t8']] for m in lg['msgs']])
    print('options:', {k: c[k] for k in ('flags', 'max_bytes', 'srcs', 'types', 'range', 'late_srcs')})
    show = lambda x: x[1] if x[0] == 'err' else [o for o, _ in x[1]] if x[0] == 'ok' else x
    print('IMPL  ', r['impl'].get('err') or r['impl'].get('shadow'), '' if 'err' in r['impl'] else json.dumps(r['impl']['res'])[:600])
    print('MODEL ', show(r['model']))
    print('SPEC  ', show(r['spec']))
    print('LEGACY', show(r['legacy']))
    js = judge(c, r)
    for kind, sig, text in js:
        print(kind.upper(), sig, text)
    shutil_rm(ctx)
    return 1 if any(k == 'violation' for k, _, _ in js) else 0


def shutil_rm(ctx):
    import shutil
    shutil.rmtree(ctx.tmp, ignore_errors=True)
