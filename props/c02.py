"""C02 — Python wire layout equals the canonical C++ packed-struct layout.

C++ side: record layouts of every P1_ALIGNAS(4) struct from clang's record-layout dump, cross-checked against
offsetof/sizeof compiled with g++ and clang++ (translators/gen_c02.py).  Python side: byte-level probing of the real
pack()/unpack() (harness/py/c02_probe.py), fresh on every run.  Coq proves by computation over the two tables, lifted to
"for every struct, for every member", that offsets, widths and fixed-part sizes agree, that every struct follows the
README's packing rule, and (by induction) that the packing rule yields non-overlapping increasing ranges.
The extracted comparison (MODEL) names mismatching rows; the comparison below (SPEC, written independently) names them
with the observations; both must name the same rows.  A mismatching row is a violation whose replay is the row."""
import json, os, re
import vf
from translators import gen_c02, gen_c03

LEVEL = 'proof'
NEST_FUEL = 6


# ---------------------------------------------------------------------------------------------------------
# SPEC: independent comparison (sets and dicts)
# ---------------------------------------------------------------------------------------------------------

def dedup_like_coq(l):
    out = []
    for i, x in enumerate(l):
        if x not in l[i + 1:]:
            out.append(x)
    return out


class Cmp:
    def __init__(self, r):
        self.lay = r['layouts']
        self.by = {s['short']: s for s in self.lay}
        self.names = r['names']
        self.res = r['probe']
        self.specs = {s['cpp']: s for s in r['specs']}
        self.known = set(self.by)

    def nested(self, m):
        return gen_c02.nested_name(m, self.known)

    def dead_offs(self, s, fuel=NEST_FUEL):
        if fuel == 0:
            return []
        out = []
        for m in s['members']:
            if gen_c02.is_reserved(m['name']):
                out += list(range(m['offset'], m['offset'] + m['size']))
            elif self.nested(m):
                ns = self.by[self.nested(m)]
                for i in range(m['size'] // m['elem_size'] if m['elem_size'] else 0):
                    out += [m['offset'] + i * m['elem_size'] + d for d in self.dead_offs(ns, fuel - 1)]
        return out

    def struct_rows(self, s, path, desc):
        n, size = s['short'], s['sizeof']
        r = gen_c02.path_result(self.res, n, path) or {}
        table = 'layout@' + desc
        rows = []

        def add(kind, member, a, b, text, **case):
            rows.append((table, kind, n, member, a, b, '[%s] %s' % (desc, text), dict(case, table=table, path=path, kind=kind, struct=n, member=member,
                                                                     python=(self.specs.get(n) or {}).get('py'))))
        bs = r.get('bytes') or []
        ign = {x['attribute'] for x in self.names.get('ignore', []) if x['struct'] == n}
        merges = [x['members'] for x in self.names.get('merge', []) if x['struct'] == n]
        renames = {x['member']: x['py'] for x in self.names.get('rename', []) if x['struct'] == n}
        exc_dead = [b for x in self.names.get('dead', []) if x['struct'] == n for b in range(x['first'], x['first'] + x['length'])]
        dead = set(self.dead_offs(s)) | set(exc_dead)
        pattrs = r.get('attributes') or []

        def fx(b):
            return None if b >= len(bs) else [a for a in bs[b]['fixed'] if a not in ign]

        def vr(b):
            return None if b >= len(bs) else [a for a in bs[b]['var'] if a not in ign]
        # sizes
        mn, cons, pl = r.get('min_size'), r.get('consumed_exact'), r.get('packed_len')
        if not (mn == size and (cons is None or cons == size) and pl == size):
            add('fixed-part-size-differs', '', mn if mn is not None else 0, size,
                'struct %s: C++ sizeof = %d, but the smallest buffer Python %s unpacks is %s bytes, unpack of exactly sizeof bytes %s, pack() gives %s bytes%s'
                % (n, size, (self.specs.get(n) or {}).get('py'), mn,
                   'consumes %s' % cons if 'exact_unpack_error' not in r else 'raises ' + r['exact_unpack_error'][:120], pl,
                   ('; probe: ' + r['error']) if 'error' in r else ''),
                cpp_sizeof=size, python_min_size=mn, python_consumed=cons, python_packed_len=pl)
        if not (len(bs) == size + 8 and all(fx(b) == [] for b in range(size, size + 8))):
            add('python-attribute-depends-on-bytes-after-the-struct', '', size, 8,
                'struct %s: a fixed-part Python attribute changes when bytes after sizeof=%d are changed: %r'
                % (n, size, [(b, fx(b)) for b in range(size, min(len(bs), size + 8)) if fx(b)]))
        mem = s['members']

        def rng(m):
            return list(range(m['offset'], m['offset'] + m['size']))

        def group(mn_):
            for g in merges:
                if mn_ in g:
                    return g
            return [mn_]

        def hull(m):
            g = group(m['name'])
            return [b for m2 in mem if m2['name'] in g for b in rng(m2)]

        def live(m):
            return [b for b in rng(m) if b not in dead]

        def attrs(m):
            l = []
            for b in live(m):
                l += fx(b) or []
            return dedup_like_coq(l)

        def expected(m):
            return renames.get(m['name'], m['name'] if m['name'] in pattrs else None)

        def attr(m):
            a = attrs(m)
            e = expected(m)
            if e is not None and e in a:
                return e
            return a[0] if a else None
        implicit = [b for m2 in mem if not gen_c02.is_reserved(m2['name']) and attr(m2) is None for b in rng(m2)]

        def confined(m, a):
            return all((not (fx(b) is not None and a in fx(b))) or b in hull(m) for b in range(size))
        for m in mem:
            a = attr(m)
            R = rng(m)
            obs = [{'byte': b, 'fixed': bs[b]['fixed'], 'var': bs[b]['var'], 'raised': bs[b]['raised'], 'observed': bs[b]['observed'],
                    'pack_changed': bs[b]['pack_changed']} for b in R if b < len(bs)]
            where = '%s::%s (offset %d, %d bytes; %s:%d)' % (n, m['name'], m['offset'], m['size'], s['file'], s['line'])

            def live_byte_ok(b):
                if fx(b) is None:
                    return False
                impl = fx(b) == [] and (bs[b]['raised'] > 0 or vr(b) != [])
                return (a is not None and a in fx(b)) or impl

            def dead_byte_ok(b):
                if fx(b) is None:
                    return False
                okf = all(x == m['name'] for x in fx(b)) if gen_c02.is_reserved(m['name']) else fx(b) == []
                return okf and vr(b) == []
            bad = [b for b in live(m) if not live_byte_ok(b)]
            if bad:
                add('bytes-of-member-not-read-by-python', m['name'], m['offset'], m['size'],
                    '%s: changing byte(s) %r changes %s in the Python object (the member maps to attribute %r)'
                    % (where, bad, 'nothing' if all(not (fx(b) or vr(b)) for b in bad) else 'other attributes %r' % sorted({x for b in bad for x in (fx(b) or [])}), a),
                    cpp_member=m['name'], offset=m['offset'], width=m['size'], bytes=bad, observations=obs)
            bad = [b for b in R if b in dead and not dead_byte_ok(b)]
            if bad:
                add('padding-bytes-read-by-python', m['name'], m['offset'], m['size'],
                    '%s: padding byte(s) %r feed Python attribute(s) %r' % (where, bad, sorted({x for b in bad for x in (fx(b) or []) + (vr(b) or [])})),
                    cpp_member=m['name'], offset=m['offset'], width=m['size'], bytes=bad, observations=obs)
            if len(attrs(m)) > 1 and not (expected(m) is not None and expected(m) in attrs(m)):
                add('member-spread-over-several-attributes', m['name'], m['offset'], m['size'],
                    '%s: its bytes feed several Python attributes %r' % (where, attrs(m)), observations=obs)
            if a is not None and not confined(m, a):
                out = [b for b in range(size) if fx(b) and a in fx(b) and b not in hull(m)]
                add('attribute-depends-on-bytes-outside-member', m['name'], m['offset'], m['size'],
                    '%s: Python attribute %r also depends on byte(s) %r outside the member' % (where, a, out), attribute=a, bytes=out)
            exp = expected(m)
            if exp is not None and not ((a is None or a == exp) and confined(m, exp)):
                add('attribute-name-mismatch', m['name'], m['offset'], m['size'],
                    '%s: these bytes feed Python attribute %r, while attribute %r is fed by byte(s) %r (swapped or misplaced field)'
                    % (where, a, exp, [b for b in range(size) if fx(b) and exp in fx(b)]), expected=exp, observed=a, observations=obs)
            written = [x for b in R if b < len(bs) for x in bs[b]['pack_changed']]
            okp = all(x in hull(m) or x in implicit for x in written)
            if a is not None:
                okp = okp and all((not (a in fx(b) and not bs[b]['pack_errors'])) or b in written for b in live(m))
            if not okp:
                add('pack-writes-other-bytes-or-not-all', m['name'], m['offset'], m['size'],
                    '%s: setting attribute %r and packing changes byte(s) %r' % (where, a, sorted(set(written))), attribute=a, written=sorted(set(written)), observations=obs)
        return rows


def spec_diff(r):
    c = Cmp(r)
    rows = []
    if len(r['layouts']) != len([s for s in r['layouts']]):
        pass
    ref = {s['short']: gen_c02.path_result(r['probe'], s['short'], 'explicit') or {} for s in r['layouts']}
    for path, desc in gen_c02.PATHS:
        for s in r['layouts']:
            rows += c.struct_rows(s, path, desc)
        # every way of reading names the same fixed attributes, byte for byte (where both could be observed)
        for s in r['layouts']:
            a, b = ref[s['short']].get('bytes') or [], (gen_c02.path_result(r['probe'], s['short'], path) or {}).get('bytes') or []
            diff = [(x['byte'], x['fixed'], y['fixed']) for x, y in zip(a, b) if x['observed'] and y['observed'] and x['fixed'] != y['fixed']]
            if len(a) != len(b) or diff:
                rows.append(('layout@' + desc, 'call-paths-observe-different-attributes', s['short'], '', 0, 0,
                             '[%s] struct %s: bytes feed different attributes than on the explicit-version path: %r' % (desc, s['short'], diff[:6]),
                             {'table': 'layout@' + desc, 'path': path, 'kind': 'call-paths-observe-different-attributes', 'struct': s['short'], 'member': '',
                              'differences (byte, explicit path, this path)': diff[:20]}))
    # README claims, recomputed
    for s in r['layouts']:
        off, ok = 0, True
        for m in s['members']:
            ok = ok and m['offset'] == off
            off += m['size']
        ok = ok and s['sizeof'] == 4 * ((off + 3) // 4) and s['align'] == 4
        if not ok:
            rows.append(('readme', 'not-packed-or-not-aligned4', s['short'], '', 0, 0,
                         'struct %s does not follow the README packing rule: members %r, sizeof %d, align %d'
                         % (s['short'], [(m['name'], m['offset'], m['size']) for m in s['members']], s['sizeof'], s['align']),
                         {'table': 'readme', 'kind': 'not-packed-or-not-aligned4', 'struct': s['short'], 'member': ''}))
        badf = [m['name'] for m in s['members'] if (m['is_float'] or m['is_class']) and m['offset'] % 4 != 0]
        if badf:
            rows.append(('readme', 'float-member-not-aligned4', s['short'], '', 0, 0,
                         'struct %s: floating point / nested struct member(s) %r not on a 4-byte boundary' % (s['short'], badf),
                         {'table': 'readme', 'kind': 'float-member-not-aligned4', 'struct': s['short'], 'member': '', 'members': badf}))
    # value rows: |obs - raw*scale| * 2^40 <= |raw*scale| (exact integer arithmetic)
    for x in r.get('value_rows', []):
        if x.get('skip'):
            continue
        en, ed = x['raw'][0] * x['scale'][0], x['raw'][1] * x['scale'][1]
        obs = x['obs'] or [0, 0]
        if x['scale'] == [1, 1]:
            ok = obs[1] > 0 and ed > 0 and en != 0 and obs[0] * ed == en * obs[1]
        else:
            ok = obs[1] > 0 and ed > 0 and en != 0 and abs(obs[0] * ed - en * obs[1]) * 2 ** 40 <= abs(en * obs[1])
        if not ok:
            from fractions import Fraction
            exp = Fraction(en, ed)
            got = ('%s' % float(Fraction(obs[0], obs[1]))) if obs[1] > 0 else 'nothing (%s)' % x.get('note', 'no value')
            if x['leaf'] == '(whole struct)':
                txt = ('%s: %s does not give the bytes pack() into a fresh buffer gives, or writes outside [offset, offset+size): %s'
                       % (x['struct'], x['how'], x.get('note') or 'message bytes differ'))
            elif x['leaf'] == '(kept object)':
                txt = ('%s: an object unpacked earlier is no longer what it was after other messages were unpacked in the same interpreter (%s): %s'
                       % (x['struct'], x['how'], x.get('note') or 'pack() output differs from the one taken right after unpack'))
            elif x['how'].startswith('unpack'):
                txt = ('%s::%s: C++ value %s written little-endian at the member\'s C++ offset; Python (%s) reads %s, the C++ struct means %s (scale %d/%d)'
                       % (x['struct'], x['leaf'], float(Fraction(*x['raw'])), x['how'], got, float(exp), x['scale'][0], x['scale'][1]))
            else:
                txt = ('%s::%s: Python value for C++ %s set and packed (%s); at the member\'s C++ offset the bytes hold %s'
                       % (x['struct'], x['leaf'], float(Fraction(*x['raw'])), x['how'], got))
            rows.append(('value', x['how'], x['struct'], x['leaf'], 0, 0, txt,
                         {'table': 'value', 'kind': x['how'], 'struct': x['struct'], 'member': x['leaf'], 'raw': x['raw'], 'scale': x['scale'],
                          'observed': x['obs'], 'note': x.get('note')}))
    for n, why in r['unmatched']:
        rows.append(('layout', 'no-python-counterpart', n, '', 0, 0, 'C++ struct %s has no Python counterpart: %s' % (n, why),
                     {'table': 'layout', 'kind': 'no-python-counterpart', 'struct': n, 'member': ''}))
    return rows


def run_model():
    exe = vf.build_extracted('c02', 'C02', 'c02_driver.ml', conv=False)
    rc, lines, err = vf.run_lines(exe, [])
    if rc != 0 or not lines or lines[-1] != 'END':
        raise RuntimeError('extracted C02 comparison failed: rc=%s %s' % (rc, err[-500:]))
    out = set()
    for ln in lines[:-1]:
        f = ln.split('\t')
        out.add((f[0], f[1], f[2], f[3], int(f[4]), int(f[5])))
    return out




def corpus_rows():
    p = os.path.join(vf.VERIF, 'corpus', 'C02', 'past_failures.json')
    return json.load(open(p)) if os.path.exists(p) else []

def coqchk(ctx):
    """thorough tier: re-check the compiled closure of Properties/C02.vo with the independent checker and copy its summary"""
    with vf.Lock('coq'):
        rc, so, se = vf.sh('timeout 1200 coqchk -o -silent -R theories FEC FEC.Properties.C02', cwd=vf.COQ, timeout=1260)
    summary = so[so.find('CONTEXT SUMMARY'):] if 'CONTEXT SUMMARY' in so else (so + se)[-800:]
    ax = re.search(r'\* Axioms:(.*?)\n\s*\n', summary, re.S)
    ok = rc == 0 and ax is not None and ax.group(1).strip() == '<none>'
    ctx.obligation('coqchk -o re-checks the closure of Properties/C02.vo; axioms: %s' % (ax.group(1).strip() if ax else '?'), ok, 'coqchk', ' '.join(summary.split())[:600])
    if not ok:
        ctx.broken_proof('coqchk does not accept the compiled development or reports axioms')

def run(ctx):
    patterns = 8 if ctx.thorough else 3
    try:
        r = gen_c02.generate(patterns=patterns, use_cache=False)
    except gen_c03.Unrecognised as e:
        # a translator that cannot cope is a failed obligation, not an aborted run: the proofs are re-checked on the tables
        # generated last, and the run is reported as not passing
        ctx.obligation('tables regenerated from the working tree', False, 'translator', str(e)[:600])
        ctx.pending_broken = {'kind': 'translator', 'what': 'translator stopped (fail closed): %s' % str(e)[:400]}
        ctx.coq()
        return
    ctx.log('tables: %d structs, probe %s' % (len(r['layouts']), 'cached' if r['probe_cached'] else 'fresh'))
    if not ctx.coq():
        ctx.broken_proof()
    elif ctx.thorough:
        coqchk(ctx)
    model = run_model()
    spec = spec_diff(r)
    # a struct without counterpart shows in the model as an empty probe row (size mismatch etc.); name it once
    unmatched = {n for n, _ in r['unmatched']}
    for row in corpus_rows():       # rows that failed in the past: re-evaluated first, reported like any other row
        again = any((s[1], s[2], s[3]) == tuple(row.get(k) for k in ('kind', 'struct', 'member')) for s in spec)
        ctx.count('corpus row ' + ('mismatching again' if again else 'agrees now'))
    spec_keys = {s[:6] for s in spec if s[1] != 'no-python-counterpart' and s[2] not in unmatched}
    model_keys = {m for m in model if m[2] not in unmatched}
    for table, kind, struct, member, a, b, text, case in spec:
        if struct in unmatched and kind != 'no-python-counterpart':
            continue
        ctx.violation({'table': table.split('@')[0], 'path': case.get('path', ''), 'kind': kind, 'struct': struct, 'member': member}, text, case)
    if model_keys != spec_keys:
        ctx.broken_correspondence('the extracted Coq comparison and the check\'s own comparison name different rows: only model %r, only check %r'
                                  % (sorted(model_keys - spec_keys)[:5], sorted(spec_keys - model_keys)[:5]),
                                  {'only_model': sorted(model_keys - spec_keys), 'only_check': sorted(spec_keys - model_keys)})

    # ---- evidence
    lay, res = r['layouts'], r['probe']
    nbytes = sum(s['sizeof'] for s in lay)
    raise_only, implicit, by_partition, perturb = [], [], [], 0
    cmpo = Cmp(r)
    for s in lay:
        for path, _ in (gen_c02.PATHS if 'only' not in (res.get(s['short']) or {}) else [('only', '')]):
            perturb += 2 * sum(b['observed'] + b['raised'] for b in ((res.get(s['short']) or {}).get(path) or {}).get('bytes') or [])
        pr = gen_c02.path_result(res, s['short'], 'explicit') or {}
        bs = pr.get('bytes') or []
        pattrs = pr.get('attributes') or []
        for m in s['members']:
            ctx.case((s['short'], m['name']))
            ctx.count('member:' + ('reserved' if gen_c02.is_reserved(m['name']) else 'nested struct' if m['is_class'] else
                                   'float' if m['is_float'] else 'enum' if m['is_enum'] else 'bit-field' if m.get('bitfield') else 'integer'))
            if gen_c02.is_reserved(m['name']):
                continue
            rb = [bs[b] for b in range(m['offset'], m['offset'] + m['size']) if b < len(bs)]
            fixed = {a for b in rb for a in b['fixed']}
            if not fixed:
                (raise_only if not any(b['var'] for b in rb) else implicit).append('%s::%s' % (s['short'], m['name']))
            elif m['name'] not in fixed:
                by_partition.append('%s::%s -> %s' % (s['short'], m['name'], ','.join(sorted(fixed))))
        for b in bs:
            ctx.case((s['short'], b['byte']))
    ctx.coverage.update({
        'exhaustive': True,
        'rule': 'every P1_ALIGNAS(4) struct in src/point_one/fusion_engine/messages/*.h x every top-level member x every byte of the fixed part '
                '(and the 8 bytes after it) x %d XOR masks per byte (more are tried, up to all 255, when unpack raises), each with a zero and a 0x01 tail; '
                'message payloads are probed on three call paths: unpack(buffer, message_version=MESSAGE_VERSION), unpack(buffer) and FusionEngineDecoder.on_data(); '
                'a case is one member or one byte.' % patterns,
        'call_paths': [d for _, d in gen_c02.PATHS],
        'structs': len(lay), 'message_structs': sum(1 for s in r['specs'] if s['kind'] == 'payload'),
        'substructures': sum(1 for s in r['specs'] if s['kind'] != 'payload'), 'members': sum(len(s['members']) for s in lay),
        'fixed_part_bytes': nbytes, 'perturbations_run': perturb, 'patterns_per_byte': patterns,
        'compilers_agreeing': ['clang++-14 record layout dump', 'clang++-14 offsetof/sizeof program', 'g++ offsetof/sizeof program'],
        'members_observed_only_through_exceptions': raise_only,
        'members_observed_through_variable_part_or_consumed_length': implicit,
        'members_matched_by_byte_range_only (names differ)': by_partition,
        'matching': {s['cpp']: '%s (%s)' % (s['py'], s['matched_by']) for s in r['specs']},
        'exception_table': {k: v for k, v in r['names'].items() if k in ('merge', 'dead', 'rename', 'ignore', 'overrides')},
        'mismatching_rows': len(spec),
        'value_rows': sum(1 for x in r['value_rows'] if not x.get('skip')),
        'value_rows_by_kind': {k: sum(1 for x in r['value_rows'] if not x.get('skip') and x['how'] == k) for k in sorted({x['how'] for x in r['value_rows'] if not x.get('skip')})},
        'value_leaves_without_value_semantics': r['value_skipped'],
        'value_rows_skipped': sorted({'%s::%s: %s' % (x['struct'], x['leaf'].split('[')[0], x['skip'][:90]) for x in r['value_rows'] if x.get('skip')}),
    })
    ctx.sample({'PoseMessage members': [(m['name'], m['offset'], m['size']) for m in cmpo.by['PoseMessage']['members'][:6]]})
    pm = (gen_c02.path_result(res, 'PoseMessage', 'default') or {}).get('bytes', [])
    ctx.sample({'PoseMessage probe bytes 16..19 (default-version path)': [{k: b[k] for k in ('byte', 'fixed', 'var', 'raised', 'pack_changed')} for b in pm[16:20]]})
    ctx.trusted_base += ['Coq 8.16.1 kernel + vm_compute', 'clang++-14 and g++ as evaluators of the C++ layout (three outputs must agree; _MSC_VER undefined, x86-64)',
                         'translators/gen_c03.py tokenizer (finds the P1_ALIGNAS(4) structs; fail closed) and translators/gen_c02.py (dump parser)',
                         'harness/py/c02_probe.py: what "an attribute changed" means (canonical deep comparison, NaN-safe), XOR masks, zero / 0x01 tails',
                         'harness/c02_names.json (committed): 16 sub-structure counterparts, 2 probing baselines, merge/dead/rename/ignore rows, scale rows (fixed-point and unit factors, each citing the C++ header)',
                         'harness/py/c02_values.py: little-endian IEEE/two\'s-complement encoding of the test values at the C++ offsets (x86-64), exact fractions of what Python shows',
                         'extraction (ExtrOcamlBasic only) + ocaml/c02_driver.ml, used only to name the failing rows']
    ctx.assumptions += ['a byte is "read" when changing it changes an attribute, the consumed length, or makes unpack raise; bytes observed only through '
                        'exceptions (strict enums, length checks) are listed in evidence',
                        'value rows use an all-zero buffer except for the one leaf under test; invalid-value sentinels (0x7FFF..., 0xFFFFFFFF) are not among the test values']


def replay(ctx, rec):
    case = rec.get('case', rec)
    r = gen_c02.generate(patterns=3, use_cache=False)
    spec = spec_diff(r)
    key = (case.get('table'), case.get('kind'), case.get('struct'), case.get('member'))
    hit = [s for s in spec if (s[0], s[1], s[2], s[3]) == key or (s[1], s[2], s[3]) == key[1:] and '@' not in (key[0] or '')]
    print('recorded row :', json.dumps({k: v for k, v in case.items() if k != 'observations'}, default=str))
    for s in hit:
        print('SPEC  (check) : still mismatching:', s[6])
    if not hit:
        print('SPEC  (check) : this row agrees now')
    try:
        mh = [m for m in run_model() if m[:4] == key]
        print('MODEL (Coq)   :', 'still mismatching %r' % (mh,) if mh else 'this row agrees now')
    except Exception as e:
        print('MODEL (Coq)   : could not be built:', e)
    s = next((x for x in r['layouts'] if x['short'] == case.get('struct')), None)
    if s:
        print('IMPL C++      : sizeof %d; members %r' % (s['sizeof'], [(m['name'], m['offset'], m['size']) for m in s['members'] if not case.get('member') or m['name'] == case.get('member')]))
        for path, desc in gen_c02.PATHS:
            if case.get('path') not in (None, '', path) and 'only' not in r['probe'].get(s['short'], {}):
                continue
            pr = gen_c02.path_result(r['probe'], s['short'], path) or {}
            print('IMPL Python   : [%s] %s min_size=%s consumed=%s packed_len=%s' % (desc, pr.get('py'), pr.get('min_size'), pr.get('consumed_exact'), pr.get('packed_len')))
            for m in s['members']:
                if m['name'] == case.get('member'):
                    for b in (pr.get('bytes') or [])[m['offset']:m['offset'] + m['size']]:
                        print('                byte %d: fixed=%r var=%r raised=%d pack_changed=%r' % (b['byte'], b['fixed'], b['var'], b['raised'], b['pack_changed']))
    return 1 if hit else 0
