"""C04 — the Python stream decoder returns exactly the valid messages in a byte stream.
(The stream generator / differential engine here is shared with props/c05.py.)"""
import json, os, struct, zlib
import vf
from translators import gen_fe

LEVEL = 'proof'
HARNESS = os.path.join(vf.VERIF, 'harness/py/c04_streams.py')
IMPL = [vf.PY, HARNESS, 'impl']
HDR = 24
KINDS = ['valid', 'valid_pert', 'unknown', 'flip', 'trunc', 'false_plaus', 'false_implaus', 'false_span', 'nested',
         'dots', 'junk', 'reserved_nz', 'lenerr_greedy', 'edge16', 'same_var', 'false_exact']
M24 = 1 << 24


def noise(err):
    return '\n'.join(l for l in err.split('\n') if l.strip() and 'leap' not in l.lower() and 'gpstime' not in l.lower()
                     and 'conda' not in l)


def mk(t, payload, seq=0, reserved=0, ver=0, src=0, crc=None, psize=None):
    body = struct.pack('<BBHIII', 2, ver, t, seq & 0xffffffff, len(payload) if psize is None else psize, src) + payload
    return struct.pack('<BBHI', 0x2e, 0x31, reserved, zlib.crc32(body) if crc is None else crc) + body


class Lib:
    """payload classes with one encoder-built message each (built by the implementation's own FusionEngineEncoder)"""
    def __init__(self, ctx):
        rc, so, se = vf.sh([vf.PY, HARNESS, 'classes'], env=vf.IMPL_ENV, timeout=120)
        if rc != 0:
            raise RuntimeError('class library: ' + noise(se)[-2000:])
        d = json.loads(so.strip().split('\n')[-1])
        self.classes = [c for c in d['classes'] if c['default']]
        for c in self.classes:
            c['msg'] = bytes.fromhex(c['default'])
        self.unbuildable = [c for c in d['classes'] if not c['default']]
        self.small = [c for c in self.classes if len(c['msg']) <= 64]
        self.varied = [c for c in self.classes if len(c.get('variants') or []) >= 2]
        self.varied_small = [c for c in self.varied if len(c['msg']) <= 100] or self.varied
        self.by_name = {c['name']: c for c in d['classes']}
        self.enum_values = set(d['enum_values'])
        self.class_types = {c['type'] for c in d['classes']}
        self.all_types = sorted(self.class_types)
        self.max_expected = d['max_expected']
        self.notes = d['notes']
        self.unknown_types = [t for t in (1, 9999, 20000, 40000, 65535) if t not in self.enum_values]
        self.enum_noclass = sorted(t for t in self.enum_values if t not in self.class_types and 0 < t < 65536)[:8]


class Gen:
    def __init__(self, lib, rng):
        self.lib, self.r, self.seq = lib, rng, rng.randrange(0, 1000)

    def nseq(self):
        self.seq += 1
        return self.seq

    def valid_msg(self, small=True):
        r = self.r
        c = r.choice(self.lib.small) if (small and r.random() < 0.75) else r.choice(self.lib.classes)
        m = c['msg']
        return mk(c['type'], m[HDR:], self.nseq(), ver=c['version'] or 0)

    def token(self, kind):
        r, lib = self.r, self.lib
        if kind == 'valid':
            return self.valid_msg()
        if kind == 'valid_pert':
            c = r.choice(lib.small if r.random() < 0.75 else lib.classes)
            p = bytearray(c['msg'][HDR:])
            if p and r.random() < 0.6:
                for _ in range(r.randint(1, 3)):
                    p[r.randrange(len(p))] = r.randrange(256)
            else:
                p = bytearray(r.randrange(256) for _ in range(len(p)))
            return mk(c['type'], bytes(p), self.nseq(), ver=c['version'] or 0)
        if kind == 'unknown':
            t = r.choice(lib.unknown_types + lib.enum_noclass[:2])
            return mk(t, bytes(r.randrange(256) for _ in range(r.choice([0, 1, 5, 16, 17, 40]))), self.nseq())
        if kind == 'flip':
            m = bytearray(self.valid_msg(small=r.random() < 0.5))
            region = r.choice(['sync', 'reserved', 'crc', 'hdr', 'hdr', 'payload', 'payload', 'retype', 'retype'])
            if region == 'retype':        # type field re-pointed at another registered class (CRC then fails)
                t = r.choice(lib.all_types)
                return bytes(m[:10]) + struct.pack('<H', t) + bytes(m[12:])
            lo, hi = {'sync': (0, 2), 'reserved': (2, 4), 'crc': (4, 8), 'hdr': (8, 24), 'payload': (24, len(m))}[region]
            if hi <= lo:
                lo, hi = 4, 8
            m[r.randrange(lo, hi)] ^= 1 << r.randrange(8)
            return bytes(m)
        if kind == 'trunc':
            m = self.valid_msg()
            return m[:r.choice([1, 2, 3, 23, 24, 25, len(m) - 1, r.randrange(1, len(m))])]
        if kind == 'false_plaus':
            return mk(r.choice([10000, 13120, 20000]), b'', self.nseq(), crc=r.getrandbits(32), psize=r.choice([0, 1, 8, 24, 40, 64]))
        if kind == 'false_implaus':
            return mk(r.choice([10000, 20000]), b'', self.nseq(), crc=r.getrandbits(32),
                      psize=r.choice([17, M24, M24 + 1, M24 + 5000, (1 << 32) - 1, 1 << 31]))
        if kind == 'false_span':
            return mk(r.choice([10000, 20000]), b'', self.nseq(), crc=r.getrandbits(32), psize=r.choice([60, 100, 150, 250, 400]))
        if kind == 'nested':
            inner = self.valid_msg()
            w = r.choice(['wrapper', 'unknown', 'badcrc', 'double'])
            if w == 'wrapper':
                return mk(13120, bytes(8) + inner, self.nseq())
            if w == 'unknown':
                return mk(lib.unknown_types[0], b'ab' + inner + b'c', self.nseq())
            if w == 'double':
                return mk(13120, bytes(8) + mk(lib.unknown_types[0], inner, self.nseq()), self.nseq())
            return mk(13120, bytes(8) + inner, self.nseq(), crc=r.getrandbits(32))
        if kind == 'dots':
            return r.choice([b'.', b'..', b'.1', b'..1', b'.1.1', b'1.', b'.' * 5, b'.' * 23, b'.' * 24, b'.1' * 12, b'.1' * 13, b'.1\x00\x00'])
        if kind == 'junk':
            if r.random() < 0.25:
                # at least 23 bytes free of sync bytes, then a sync pair (or its first half) at the very end
                return bytes(r.choice([0, 0x2f, 0x31, 0xff]) for _ in range(r.choice([23, 24, 25, 47]))) + r.choice([b'.', b'.1', b'..1', b'.1.'])
            n = r.choice([1, 2, 7, 23, 24, 25, 40])
            b = bytearray(r.choice([0, 0x31, 0x2f, 0xff, r.randrange(256)]) if r.random() < 0.3 else r.randrange(256) for _ in range(n))
            if r.random() < 0.5:
                b = bytearray(x if x != 0x2e else 0x2f for x in b)
            else:
                k = r.randrange(0, n)
                b[k:k] = b'.1'
            return bytes(b)
        if kind == 'reserved_nz':
            m = self.valid_msg()
            return m[:2] + struct.pack('<H', r.choice([1, 256, 0xffff, r.randrange(1, 65536)])) + m[4:]
        if kind == 'lenerr_greedy':
            w = r.choice(['pose3', 'wrap4', 'sta4', 'short', 'long', 'empty'])
            if w == 'pose3':
                return mk(10000, b'abc', self.nseq())
            if w == 'wrap4':
                return mk(13120, bytes(8) + b'\x01\x02\x03\x04', self.nseq())
            if w == 'sta4':
                return mk(14102, bytes(4) + b'\x05\x06\x07\x08', self.nseq())
            c = r.choice(lib.small)
            p = c['msg'][HDR:]
            p = {'short': p[:-1], 'long': p + b'\x00', 'empty': b''}[w]
            return mk(c['type'], p, self.nseq(), ver=c['version'] or 0)
        if kind == 'same_var':
            # two or three messages of ONE class whose payloads parse to different field values (back to back, or with a
            # different message in between)
            c = r.choice(lib.varied_small if r.random() < 0.6 else lib.varied)
            pls = r.sample(c['variants'], min(len(c['variants']), r.choice([2, 2, 3])))
            parts = [mk(c['type'], bytes.fromhex(pl), self.nseq(), ver=c['version'] or 0) for pl in pls]
            if r.random() < 0.3:
                parts.insert(1, self.valid_msg())
            return b''.join(parts)
        if kind == 'false_exact':
            # a false header whose claimed extent ends exactly at the start of a real message (or one byte before / after)
            inner = b''.join(self.valid_msg() for _ in range(r.choice([1, 2, 3])))
            d = r.choice([0, 0, 0, -1, 1])
            ps = len(inner) - HDR + d if r.random() < 0.5 else len(inner) + d     # extent measured from the false header's end / incl. it
            head = mk(r.choice([10000, 20000, 13120]), b'', self.nseq(), crc=r.getrandbits(32), psize=max(0, ps))
            return head + inner + self.valid_msg()
        if kind == 'edge16':
            return mk(lib.unknown_types[1 % len(lib.unknown_types)], bytes(r.randrange(256) for _ in range(r.choice([15, 16, 17]))), self.nseq())
        raise KeyError(kind)


def valid_payload_sizes(stream):
    """payload sizes of CRC-valid candidates (used to pick the 'exact' maximum)"""
    out, p = [], stream.find(b'.1')
    while p >= 0:
        if p + HDR <= len(stream):
            ps = struct.unpack_from('<I', stream, p + 16)[0]
            if p + HDR + ps <= len(stream) and zlib.crc32(stream[p + 8:p + HDR + ps]) == struct.unpack_from('<I', stream, p + 4)[0]:
                out.append(ps)
        p = stream.find(b'.1', p + 1)
    return out


def verdict_hist(stream, maxp, maxe, count):
    """evidence only: which rule decides each sync candidate of the stream (Python re-statement, not an oracle)"""
    p = stream.find(b'.1')
    while p >= 0:
        if p + HDR > len(stream):
            count('verdict:more-header-incomplete')
        else:
            res, ps = struct.unpack_from('<H', stream, p + 2)[0], struct.unpack_from('<I', stream, p + 16)[0]
            if res != 0:
                count('verdict:reject-reserved')
            elif ps > maxp:
                count('verdict:reject-too-big')
            elif p + HDR + ps > len(stream):
                count('verdict:more-payload-incomplete')
            elif ps > maxe:
                count('verdict:reject-sanity-limit')
            elif zlib.crc32(stream[p + 8:p + HDR + ps]) != struct.unpack_from('<I', stream, p + 4)[0]:
                count('verdict:reject-crc')
            else:
                count('verdict:candidate-crc-valid')
        p = stream.find(b'.1', p + 1)


def random_partition(r, n, empties=True):
    if n == 0:
        return [0]
    cuts = sorted(set(r.randrange(1, n) for _ in range(r.choice([1, 2, 3, 5, 9])))) if n > 1 else []
    sizes = [b - a for a, b in zip([0] + cuts, cuts + [n])]
    if empties and r.random() < 0.5:
        sizes.insert(r.randrange(len(sizes) + 1), 0)
    return sizes


class Case:
    __slots__ = ('tokens', 'stream', 'maxp', 'maxe', 'rb', 'ro', 'chunkings', 'origin', 'opts')

    def __init__(self, tokens, maxp, maxe, rb, ro, chunkings, origin, opts='likely,0,0'):
        self.tokens, self.maxp, self.maxe, self.rb, self.ro, self.chunkings, self.origin = tokens, maxp, maxe, rb, ro, chunkings, origin
        self.opts = opts              # warn_on_error, warn_on_gap, warn_on_unrecognized (logging options)
        self.stream = b''.join(b for _, b in tokens)

    def impl_line(self, mode='S', chunkings=None):
        return '%s %d %s %d %d %s %s %s' % (mode, self.maxp, '-' if self.maxe is None else self.maxe, self.rb, self.ro, self.opts,
                                            self.stream.hex() or '-', chunkings or self.chunkings)

    def model_line(self, oracle, default_maxe, mode='S', chunkings=None, legacy=0):
        return '%s %d %d %d %d %d %s %s %s' % (mode, self.maxp, default_maxe if self.maxe is None else self.maxe, self.rb, self.ro,
                                               legacy, self.stream.hex() or '-', oracle, chunkings or self.chunkings)

    def describe(self):
        return {'tokens': [(k, b.hex()) for k, b in self.tokens], 'stream_hex': self.stream.hex(), 'max_payload_len_bytes': self.maxp,
                'patched_MAX_EXPECTED_SIZE_BYTES': self.maxe, 'return_bytes': bool(self.rb), 'return_offset': bool(self.ro), 'logging_options': self.opts,
                'chunkings': self.chunkings, 'origin': self.origin}

    @staticmethod
    def from_desc(d):
        return Case([(k, bytes.fromhex(h)) for k, h in d['tokens']], d['max_payload_len_bytes'], d['patched_MAX_EXPECTED_SIZE_BYTES'],
                    int(d['return_bytes']), int(d['return_offset']), d['chunkings'], d.get('origin', 'replay'),
                    d.get('logging_options', 'likely,0,0'))


def n_chunkings(c):
    n = len(c.stream)
    return sum(max(0, n - 1) if x == 'SPLITS' else 1 for x in c.chunkings.split(';'))


def expand_chunkings(c):
    n, out = len(c.stream), []
    for x in c.chunkings.split(';'):
        if x == 'SPLITS':
            out += ['c:%d,%d' % (k, n - k) for k in range(1, n)]
        else:
            out.append(x)
    return out


def parse_items(text):
    """R text -> list of (call index, item string)"""
    out = []
    for part in text.split(';'):
        if not part:
            continue
        i, _, items = part.partition(':')
        for it in items.split('+'):
            out.append((int(i), it))
    return out


def classify(impl_r, model_r, spec_r):
    """structural signature of a difference between the implementation's public results and the SPEC's"""
    if '!EXC' in impl_r:
        return {'kind': 'exception-escapes-on_data', 'exception': impl_r.split('!EXC:')[1].split(';')[0]}
    if '!SH' in impl_r:
        return {'kind': 'result-shape'}
    if '!CB' in impl_r:
        return {'kind': 'callbacks-differ-from-return-value'}
    if '!AL' in impl_r:
        return {'kind': 'earlier-result-changed-after-a-later-call'}
    if '!ID' in impl_r:
        return {'kind': 'results-share-a-mutable-object'}
    if '!IN' in impl_r:
        return {'kind': 'caller-buffer-modified'}
    if '!SD' in impl_r:
        return {'kind': 'second-decoder-alive-at-the-same-time-disturbed'}
    if '!RX' in impl_r:
        return {'kind': 'decoder-unusable-after-a-callback-raised'}
    I, S = parse_items(impl_r), parse_items(spec_r)
    spec_unparseable = [it for _, it in S if it.endswith(',X')]
    if impl_r == model_r and spec_unparseable:
        # the only difference between MODEL and SPEC is the payload-parser requirement (PyDecoderP.judge_dec_eq_judge)
        return {'kind': 'crc-valid-message-not-returned', 'spec': 'accepts', 'impl': 'drops', 'payload_unpack': 'raises'}
    for k in range(max(len(I), len(S))):
        if k >= len(I):
            return {'kind': 'message-missing', 'spec_payload_parses': not S[k][1].endswith(',X')}
        if k >= len(S):
            return {'kind': 'extra-message'}
        (ci, a), (cs, b) = I[k], S[k]
        if a == b and ci != cs:
            return {'kind': 'delivered-by-wrong-call', 'direction': 'late' if ci > cs else 'early'}
        if a != b:
            fa, fb = a.split(','), b.split(',')
            if fa[:6] == fb[:6]:
                return {'kind': 'message-returned-although-its-own-payload-does-not-parse' if fb[6] == 'X' else 'payload-values-differ'}
            if fa[:4] == fb[:4] and fa[4] == fb[4]:
                return {'kind': 'wrong-offset'}
            if fa[:4] == fb[:4]:
                return {'kind': 'wrong-raw-bytes'}
            return {'kind': 'different-message', 'spec_payload_parses': not b.endswith(',X')}
    return {'kind': 'unclassified'}


class Engine:
    def __init__(self, ctx, pid):
        self.ctx, self.pid = ctx, pid
        consts = gen_fe.generate()
        if pid == 'C04':
            from translators import gen_c06      # Properties/C04.v composes with the encoder development of C06
            gen_c06.generate()
        ctx.notes.append('generated constants: %r' % (consts,))
        if not ctx.coq():
            ctx.broken_proof()
        if ctx.thorough and getattr(ctx, 'coq_ok', False):
            with vf.Lock('coq'):
                rc, so, se = vf.sh('timeout 1200 coqchk -silent -o -R theories FEC FEC.Properties.%s' % pid, cwd=vf.COQ, timeout=1260)
            summary = ' '.join((so + se).split())
            ok = rc == 0 and 'Axioms: <none>' in summary and 'type-in-type: <none>' in summary and 'positivity is assumed: <none>' in summary
            ctx.obligation('coqchk -o over the closure of Properties/%s.vo: no axioms, no assumed positivity/guardedness' % pid, ok, 'coqchk', summary[-500:])
            if not ok:
                ctx.broken_proof('coqchk does not accept the compiled development')
        self.model = vf.build_extracted(pid.lower(), pid, 'c04_driver.ml')
        self.lib = Lib(ctx)
        self.default_maxe = self.lib.max_expected
        gen_maxe = consts.get('MAX_EXPECTED_SIZE_BYTES') if isinstance(consts, dict) else None
        if gen_maxe is not None and gen_maxe != self.default_maxe:
            raise RuntimeError('generated MAX_EXPECTED_SIZE_BYTES %r differs from the imported class attribute %r' % (gen_maxe, self.default_maxe))
        for n in self.lib.notes:
            ctx.notes.append('class library: ' + n)

    # ---- run a batch of cases through IMPL and MODEL/SPEC ------------------------------------------------------
    def run(self, cases, mode='S'):
        """returns per case: (oracle, [per chunking (impl_R, impl_A)], [per chunking (model_R, model_A, spec_R)]) or an error string"""
        if not cases:
            return []
        # spread neighbouring (similarly expensive) cases over the runner shards: run in strided order, undo afterwards
        if not getattr(self, '_in_strided', False) and len(cases) > 64:
            k = vf.NCPU
            perm = [i for j in range(k) for i in range(j, len(cases), k)]
            self._in_strided = True
            try:
                out = self.run([cases[i] for i in perm], mode)
            finally:
                self._in_strided = False
            res = [None] * len(cases)
            for i, o in zip(perm, out):
                res[i] = o
            return res
        il = [c.impl_line(mode) for c in cases]
        io = vf.run_parallel(IMPL, il, env=vf.IMPL_ENV, timeout=3000)
        if len(cases) > 64:
            self.ctx.log('implementation ran %d streams' % len(cases))
        ml, idx = [], []
        res = [None] * len(cases)
        for k, (c, o) in enumerate(zip(cases, io)):
            if o.startswith('ERROR') or ' # ' not in o:
                res[k] = 'IMPL harness: ' + o[:300]
                continue
            orc, _, rest = o.partition(' # ')
            ml.append(c.model_line(orc, self.default_maxe, mode)); idx.append(k)
            res[k] = [orc, rest]
        mo = vf.run_parallel(self.model, ml, timeout=3000)
        if len(cases) > 64:
            self.ctx.log('extracted MODEL and SPEC ran %d streams' % len(cases))
        for k, o in zip(idx, mo):
            if o.startswith('ERROR') or o == '?':
                res[k] = 'MODEL driver: ' + o[:300]
                continue
            orc, rest = res[k]
            if mode == 'V':
                ii = [x[2:-1].split('}{') for x in rest.split(' | ')]
                mm = []
                for x in o.split(' | '):
                    m_, _, s_ = x.partition(' S{')
                    mm.append(m_[2:-1].split('}{') + [s_[:-1]])
            else:
                ii = [x.split() for x in rest.split(' | ')]
                mm = [x.split() for x in o.split(' | ')]
            res[k] = (orc, ii, mm)
        return res

    def verbose(self, case, chunking):
        c1 = Case(case.tokens, case.maxp, case.maxe, case.rb, case.ro, chunking, case.origin, case.opts)
        r = self.run([c1], 'V')[0]
        if isinstance(r, str):
            return None, r
        orc, ii, mm = r
        return c1, {'oracle': orc, 'impl_R': ii[0][0], 'impl_A': ii[0][1], 'model_R': mm[0][0], 'model_A': mm[0][1], 'spec_R': mm[0][2]}

    def signature_of(self, case, chunking):
        c1, v = self.verbose(case, chunking)
        if c1 is None:
            return None, None, v
        if v['impl_R'] == v['spec_R']:
            return None, c1, v
        return classify(v['impl_R'], v['model_R'], v['spec_R']), c1, v

    def shrink(self, case, chunking, sig):
        """drop tokens while the same signature persists (chunking re-expressed as ONE/BYTES when it was one of those)"""
        cur, cur_ch = case, chunking
        improved = True
        rounds = 0
        while improved and len(cur.tokens) > 1 and rounds < 6:
            improved = False
            rounds += 1
            for k in range(len(cur.tokens)):
                toks = cur.tokens[:k] + cur.tokens[k + 1:]
                cand = Case(toks, cur.maxp, cur.maxe, cur.rb, cur.ro, cur_ch, cur.origin, cur.opts)
                ch = cur_ch
                if ch.startswith('c:'):
                    # keep the same cut positions where they still fit
                    n = len(cand.stream)
                    sizes = [int(x) for x in ch[2:].split(',') if x]
                    cuts, acc = [], 0
                    for s in sizes[:-1]:
                        acc += s
                        if acc < n:
                            cuts.append(acc)
                    ch = 'c:' + ','.join(str(b - a) for a, b in zip([0] + cuts, cuts + [n]))
                s2, c2, v2 = self.signature_of(cand, ch)
                if s2 == sig:
                    cur, cur_ch, improved = cand, ch, True
                    break
        return cur, cur_ch

    # ---- compare ------------------------------------------------------------------------------------------------
    def evaluate(self, cases):
        ctx = self.ctx
        results = self.run(cases)
        mism = []                                     # (case, chunking, 'spec'|'model'|'attrs')
        for case, r in zip(cases, results):
            if isinstance(r, str):
                raise RuntimeError(r + ' on ' + json.dumps(case.describe())[:600])
            orc, ii, mm = r
            chs = expand_chunkings(case)
            if not (len(chs) == len(ii) == len(mm)):
                raise RuntimeError('runner output shape: %d chunkings, %d impl, %d model' % (len(chs), len(ii), len(mm)))
            for k, _ in case.tokens:
                ctx.count('token:' + k)
            ctx.count('config:maxp=%s' % ('0' if case.maxp == 0 else '16' if case.maxp == 16 else '2^24' if case.maxp == M24 else '>2^24' if case.maxp > M24 else 'exact'))
            ctx.count('config:flags=rb%d,ro%d' % (case.rb, case.ro))
            ctx.count('config:logging=' + case.opts)
            if case.maxe is not None:
                ctx.count('config:patched-sanity-limit')
            verdict_hist(case.stream, case.maxp, self.default_maxe if case.maxe is None else case.maxe, ctx.count)
            for e in (orc.split(',') if orc != '-' else []):
                ctx.count('oracle:payload-parses' if e.split(':')[2] == '1' else 'oracle:payload-unpack-raises')
            for ch, (ir, ia), (mr, ma, sr) in zip(chs, ii, mm):
                ctx.case((case.stream, case.maxp, case.maxe, case.rb, case.ro, ch))
                ctx.count('chunking:' + ('explicit' if ch.startswith('c:') else ch))
                kinds = set()
                if ir != sr:
                    kinds.add('spec')
                elif ir != mr:
                    kinds.add('model')
                if ia != ma:
                    kinds.add('attrs')
                if kinds:
                    mism.append((case, ch, kinds))
        ctx.count('mismatching (stream, chunking) evaluations', len(mism))
        if not mism:
            return 0
        # diagnose a spread of the mismatches in one verbose batch, group by structural signature
        def spread(l, n):
            return l[::max(1, len(l) // n)][:n]
        pick = (spread([m for m in mism if 'spec' in m[2]], 400) + spread([m for m in mism if 'model' in m[2]], 100) +
                spread([m for m in mism if 'attrs' in m[2] and 'spec' not in m[2]], 200) +
                spread([m for m in mism if 'attrs' in m[2] and 'spec' in m[2]], 200))
        vcases = [Case(c.tokens, c.maxp, c.maxe, c.rb, c.ro, ch, c.origin, c.opts) for c, ch, _ in pick]
        vres = self.run(vcases, 'V')
        groups = {}
        for (case, ch, kinds), vc, r in zip(pick, vcases, vres):
            if isinstance(r, str):
                raise RuntimeError(r)
            orc, ii, mm = r
            v = {'oracle': orc, 'impl_R': ii[0][0], 'impl_A': ii[0][1], 'model_R': mm[0][0], 'model_A': mm[0][1], 'spec_R': mm[0][2]}
            found = False
            if v['impl_R'] != v['spec_R']:
                sig = classify(v['impl_R'], v['model_R'], v['spec_R'])
                groups.setdefault(('spec', json.dumps(sig, sort_keys=True)), []).append((vc, ch, sig, v)); found = True
            elif v['impl_R'] != v['model_R']:
                groups.setdefault(('model', ''), []).append((vc, ch, None, v)); found = True
            if v['impl_A'] != v['model_A']:
                found = True
                if '?' in v['impl_A']:
                    note = 'private decoder attributes missing in the implementation; state comparison skipped'
                    if note not in ctx.notes:
                        ctx.notes.append(note)
                    # compare the attributes that do exist
                    ia_, ma_ = [x.split(',') for x in v['impl_A'].split(';') if x], [x.split(',') for x in v['model_A'].split(';') if x]
                    if len(ia_) != len(ma_) or any(a != '?' and a != b for x, y in zip(ia_, ma_) for a, b in zip(x, y)):
                        groups.setdefault(('attrs', ''), []).append((vc, ch, None, v))
                else:
                    groups.setdefault(('attrs', ''), []).append((vc, ch, None, v))
            if not found:
                raise RuntimeError('digest mismatch not reproduced in verbose mode: %r' % (vc.describe(),))
        for (kind, _), g in groups.items():
            g.sort(key=lambda t: len(t[0].stream))
            vc, ch, sig, v = g[0]
            if kind == 'spec':
                ctx.count('violation-class:' + sig['kind'], len(g))
                known = any(f.get('status') == 'known' and all(sig.get(a) == b for a, b in f.get('match', {}).items()) for f in ctx.findings)
                if not known:
                    vc, ch = self.shrink(vc, ch, sig)
                    _, vc, v = self.signature_of(vc, ch)
                d = vc.describe(); d.update(v); d['chunking'] = ch
                ctx.violation(sig, '%s: decoder results differ from the left-to-right scan (%s); stream of %d bytes, tokens %s, chunking %s'
                              % (self.pid, sig['kind'], len(vc.stream), [k for k, _ in vc.tokens], ch), d)
            elif kind == 'model':
                d = vc.describe(); d.update(v); d['chunking'] = ch
                ctx.broken_correspondence('decoder MODEL and implementation return different results although the implementation agrees with the SPEC', d)
            else:
                d = vc.describe(); d.update(v); d['chunking'] = ch
                ctx.broken_correspondence('decoder private state (_bytes_processed, len(_buffer), _header is None, _msg_len, _last_sequence_number) '
                                          'differs from the MODEL after some call', d)
        return len(mism)


def configs_for(r, stream, k):
    """(maxp, patched maxe) choices; k rotates through the principal four"""
    sizes = valid_payload_sizes(stream)
    exact = r.choice(sizes) if sizes else 16
    return [(0, None), (16, None), (exact, None), (M24, None), (0, None), (16, None), (max(0, exact - 1), None), (exact + 1, None)][k % 8]


def big_cases(ctx, lib, profile, add_case):
    """size classes 1 KiB .. 70 KiB: large valid messages, corrupted / truncated / false-header candidates of those sizes, with
    split points inside them, at their end, and fixed-size reads whose completing chunk carries trailing data"""
    r = ctx.rng
    g = Gen(lib, r)
    sizes = [1001, 1100, 1500, 3000, 4095, 4096, 5000] + ([16384, 17000, 70000] if ctx.thorough else [16384, 70000] if profile == 'C05' else [16500, 66000])
    reps = 3 if ctx.thorough else 1
    for _ in range(reps):
        for S in sizes:
            def big(kind):
                data = bytes(r.randrange(256) for _ in range(64)) * (S // 64 + 1)
                data = data[:S]
                if kind == 'wrapper':
                    return mk(13120, bytes(8) + data[8:], g.nseq())
                if kind == 'sta':
                    return mk(14102, bytes(4) + data[4:], g.nseq())
                return mk(lib.unknown_types[0], data, g.nseq())
            shapes = []
            v = big(r.choice(['wrapper', 'sta', 'unknown']))
            shapes.append([('valid', g.valid_msg()), ('big_valid', v), ('valid', g.valid_msg()), ('dots', b'.1')])
            shapes.append([('big_valid', big('unknown')), ('big_valid', big('wrapper'))] if S <= 5000 else [('big_valid', big('wrapper')), ('valid', g.valid_msg())])
            bad = bytearray(big(r.choice(['wrapper', 'unknown'])))
            bad[r.choice([5, 30, len(bad) // 2, len(bad) - 1])] ^= 1 << r.randrange(8)
            shapes.append([('big_flip', bytes(bad)), ('valid', g.valid_msg()), ('valid', g.valid_msg())])
            # false header claiming S bytes, followed by at least that much real traffic
            follow = []
            while sum(len(b) for _, b in follow) < S + 40:
                follow.append(('valid', g.valid_msg(small=False)) if S < 6000 else ('valid', mk(lib.unknown_types[0], bytes(r.randrange(256) for _ in range(900)), g.nseq())))
            shapes.append([('false_span', mk(10000, b'', g.nseq(), crc=r.getrandbits(32), psize=S))] + follow)
            # truncated large message whose claimed length is then filled by following messages
            t = big('wrapper')
            shapes.append([('big_trunc', t[:r.choice([24, 100, len(t) // 2, len(t) - 1])])] + follow[:max(2, len(follow) // 2)] + follow)
            if S >= 60000 and not ctx.thorough:
                shapes = [shapes[0], shapes[2], shapes[3]]       # large valid, corrupted, false header
            for toks in shapes:
                stream = b''.join(b for _, b in toks)
                n = len(stream)
                # boundaries of the large tokens
                cuts, acc = set(), 0
                for kd, b in toks:
                    if kd.startswith('big') or kd == 'false_span':
                        for c_ in (acc + 1, acc + 23, acc + 24, acc + 25, acc + len(b) // 2, acc + len(b) - 1, acc + len(b), acc + len(b) + 1,
                                   acc + r.randrange(1, max(2, len(b)))):
                            if 0 < c_ < n:
                                cuts.add(c_)
                    acc += len(b)
                cuts = sorted(cuts)
                if profile == 'C04':
                    cuts = r.sample(cuts, min(3, len(cuts)))
                elif S >= 16000 and not ctx.thorough:
                    cuts = sorted(r.sample(cuts, min(6, len(cuts))))
                parts = ['ONE'] + ['c:%d,%d' % (c_, n - c_) for c_ in cuts]
                for rd in ((1024, 4096) if profile == 'C05' else (r.choice([512, 1024, 4096]),)):
                    parts.append('c:' + ','.join(str(min(rd, n - o)) for o in range(0, n, rd)))
                parts.append('c:' + ','.join(map(str, random_partition(r, n))))
                if n <= 3200 and profile == 'C05':
                    parts.append('BYTES')
                maxp = r.choice([M24, M24, M24, S, S - 1])
                add_case(toks, maxp, None, 1, 1, 'size-class-%s' % ('<4K' if S < 4096 else '<64K' if S < 65536 else '>=64K'), ';'.join(parts))


def build_cases(ctx, lib, profile):
    """profile 'C04': breadth over configurations/flags with three chunkings; 'C05': depth over chunkings."""
    r = ctx.rng
    g = Gen(lib, r)
    cases = []
    thorough = ctx.thorough

    def chunkings(stream):
        n = len(stream)
        if profile == 'C04':
            return 'ONE;BYTES;c:' + ','.join(map(str, random_partition(r, n))) + ';' + tokcut[0]
        parts = ['ONE', 'BYTES']
        if n <= (400 if thorough else 200):
            parts.append('SPLITS')
        else:
            parts += ['c:%d,%d' % (k, n - k) for k in sorted(set(r.randrange(1, n) for _ in range(40)))]
        parts += ['c:' + ','.join(map(str, random_partition(r, n))) for _ in range(3)]
        return ';'.join(parts)

    nadd = [0]

    def add_explicit(tokens, maxp, maxe, rb, ro, origin, chunkings_):
        j = nadd[0]; nadd[0] += 1
        cases.append(Case(tokens, maxp, maxe, rb, ro, chunkings_, origin, '%s,%d,%d' % (('likely', 'all', 'likely', 'none')[j % 4], (j // 4) % 2, (j // 8) % 2)))

    tokcut = ['']

    def add(tokens, maxp, maxe, rb, ro, origin, opts=None):
        # calls that end exactly at the token boundaries (a message exactly filling the buffer / ending at a call boundary)
        tokcut[0] = 'c:' + ','.join(str(len(b)) for _, b in tokens)
        # logging options rotate independently of everything else: default ('likely') half of the time
        j = nadd[0]; nadd[0] += 1
        if opts is None:
            opts = '%s,%d,%d' % (('likely', 'all', 'likely', 'none')[j % 4], (j // 4) % 2, (j // 8) % 2)
        c = Case(tokens, maxp, maxe, rb, ro, '', origin, opts)
        c.chunkings = chunkings(c.stream)
        cases.append(c)

    # corpus (minimised past failures) first
    cdir = os.path.join(vf.VERIF, 'corpus', profile)
    for f in sorted(os.listdir(cdir)) if os.path.isdir(cdir) else []:
        if f.endswith('.json'):
            d = json.load(open(os.path.join(cdir, f)))
            c = Case.from_desc(d.get('case', d))
            c.origin = 'corpus:' + f
            cases.append(c)
    # every class: default message and a perturbed one, alone and followed by another message, all four flag settings
    k = 0
    for c in lib.classes:
        m = mk(c['type'], c['msg'][HDR:], g.nseq(), ver=c['version'] or 0)
        follower = g.valid_msg()
        for toks in ([('valid', m)], [('valid', m), ('valid', follower)], [('junk', b'\x00.1'), ('valid', m), ('dots', b'.')]):
            rb, ro = (k >> 1) & 1, k & 1
            if profile == 'C05':
                rb, ro = 1, 1
            add(toks, M24, None, rb, ro, 'per-class'); k += 1
        p = bytearray(c['msg'][HDR:])
        for _ in range(2):
            if p:
                p[r.randrange(len(p))] = r.randrange(256)
        add([('valid_pert', mk(c['type'], bytes(p), g.nseq(), ver=c['version'] or 0)), ('valid', follower)], M24, None, 1, 1, 'per-class')
        # CRC failures on a message of this class (the decoder consults the class on that path), followed by a valid message:
        # flipped bit in the payload, in the crc field, in the header fields, and the type field of ANOTHER message
        # re-pointed at this class (so the payload size is not this class's), each under every warn_on_error setting
        other = g.valid_msg()
        retyped = other[:10] + struct.pack('<H', c['type']) + other[12:]
        for woe in ('likely', 'all', 'none'):
            variants = []
            bad = bytearray(m); bad[r.randrange(24, len(bad)) if len(bad) > 24 else 5] ^= 1 << r.randrange(8); variants.append(bytes(bad))
            bad = bytearray(m); bad[r.randrange(4, 8)] ^= 1 << r.randrange(8); variants.append(bytes(bad))
            bad = bytearray(m); bad[r.choice([8, 9, 12, 13, 20, 21])] ^= 1 << r.randrange(8); variants.append(bytes(bad))
            variants.append(retyped)
            for v in variants:
                add([('flip', v), ('valid', follower)], M24, None, 1, 1, 'per-class-corrupted', '%s,%d,%d' % (woe, r.randrange(2), r.randrange(2)))
        # several messages of this class with different field values (results must not alias each other), and the same
        # class twice around a later callback registration
        if len(c.get('variants') or []) >= 2:
            vs = [mk(c['type'], bytes.fromhex(pl), g.nseq(), ver=c['version'] or 0) for pl in c['variants'][:3]]
            add([('same_var', b''.join(vs))], M24, None, 1, 1, 'per-class-same-type')
            add([('same_var', vs[0]), ('valid', follower), ('same_var', vs[1])], M24, None, 1, 1, 'per-class-same-type')
        else:
            add([('valid', m), ('valid', mk(c['type'], c['msg'][HDR:], g.nseq(), ver=c['version'] or 0))], M24, None, 1, 1, 'per-class-same-type')
    # classes whose default object cannot be serialised: a message of that type with a short payload, and a CRC failure
    for c in lib.unbuildable:
        add([('lenerr_greedy', mk(c['type'], bytes(8), g.nseq())), ('valid', g.valid_msg())], M24, None, 1, 1, 'per-class-unbuildable')
        for woe in ('likely', 'all', 'none'):
            for n in (0, 8, 40):
                add([('flip', mk(c['type'], bytes(n), g.nseq(), crc=12345)), ('valid', g.valid_msg())], M24, None, 1, 1, 'per-class-unbuildable',
                    '%s,%d,%d' % (woe, r.randrange(2), r.randrange(2)))
    # for EVERY registered class: CRC-valid messages whose payload makes unpack() fail, one family per exception TYPE it raises
    # (the dropped message is the known finding; on_data must not raise and the following valid message must be delivered)
    names = [c['name'] for c in lib.classes + lib.unbuildable]
    table = {}
    for o in vf.run_parallel([vf.PY, HARNESS, 'badpayloads'], names, env=vf.IMPL_ENV, timeout=900):
        table.update(json.loads(o))
    exc_types = {}
    for name in names:
        rec = table[name]
        exc_types[name] = {e: v['count'] for e, v in sorted(rec['by_exception'].items())}
        ver = (lib.by_name[name].get('version') or 0)
        for e, v in sorted(rec['by_exception'].items()):
            ctx.count('unpack-raises:' + e)
            for pl in (v['payloads'] if profile == 'C04' else v['payloads'][:1]):
                bad = mk(rec['type'], bytes.fromhex(pl), g.nseq(), ver=ver)
                add([('unparseable', bad), ('valid', g.valid_msg())], M24, None, 1, 1, 'per-class-unparseable:' + e)
            bad = mk(rec['type'], bytes.fromhex(v['payloads'][0]), g.nseq(), ver=ver)
            add([('valid', g.valid_msg()), ('unparseable', bad), ('valid', g.valid_msg()), ('valid', g.valid_msg())], M24, None, r.randrange(2), r.randrange(2),
                'per-class-unparseable:' + e)
    ctx.coverage['unpack_exception_types_per_class'] = exc_types
    ctx.coverage['unpack_exception_types'] = sorted({e for d in exc_types.values() for e in d})
    ctx.coverage['unpack_candidates_tried'] = sum(table[n]['tried'] for n in names)
    big_cases(ctx, lib, profile, add_explicit)
    # bounded-exhaustive token sequences
    import itertools
    # C04: all sequences up to length 3 (quick) / 4 (thorough); C05 (about 100 chunkings per stream): all up to length 2
    # and every 6th of length 3 (quick), all up to 3 and every 16th of length 4 (thorough)
    full = {('C04', False): 3, ('C04', True): 4, ('C05', False): 2, ('C05', True): 3}[(profile, thorough)]
    sampled = {('C04', False): None, ('C04', True): None, ('C05', False): (3, 6), ('C05', True): (4, 16)}[(profile, thorough)]
    k = 0
    for n in range(1, (sampled[0] if sampled else full) + 1):
        phase = r.randrange(sampled[1]) if sampled else 0
        for j, seq in enumerate(itertools.product(KINDS, repeat=n)):
            if n > full and (j + phase) % sampled[1]:
                continue
            toks = [(kd, g.token(kd)) for kd in seq]
            stream = b''.join(b for _, b in toks)
            maxp, maxe = configs_for(r, stream, k)
            if profile == 'C04':
                rb, ro = (k >> 2) & 1, (k >> 3) & 1
            else:
                rb, ro = (1, 1) if k % 4 else (r.randrange(2), r.randrange(2))
                if k % 3:
                    maxp = M24
            add(toks, maxp, maxe, rb, ro, 'exhaustive-%d' % n); k += 1
    # all 16 (max, flags) settings on a sample of sequences
    nfull = 400 if thorough else 60
    for _ in range(nfull if profile == 'C04' else nfull // 4):
        toks = [(kd, g.token(kd)) for kd in [r.choice(KINDS) for _ in range(r.randint(2, 5))]]
        stream = b''.join(b for _, b in toks)
        for kk in range(4):
            maxp, maxe = configs_for(r, stream, kk)
            for rb in (0, 1):
                for ro in (0, 1):
                    add(toks, maxp, maxe, rb, ro, 'all-settings')
    # random longer sequences
    nrand = (150000 if profile == 'C04' else 5000) if thorough else (8000 if profile == 'C04' else 400)
    for i in range(nrand):
        toks = [(kd, g.token(kd)) for kd in [r.choice(KINDS) for _ in range(r.randint(3, 9))]]
        stream = b''.join(b for _, b in toks)
        maxp, maxe = configs_for(r, stream, r.randrange(4))
        add(toks, maxp, maxe, r.randrange(2), r.randrange(2), 'random')
    # maxima above the library's sanity limit (real constant: the decoder waits), and the sanity limit patched down to
    # 64 in the running interpreter so that the "claimed size in (limit, max]" path is actually walked to its end
    for i in range(300 if thorough else 60):
        toks = [(kd, g.token(kd)) for kd in [r.choice(KINDS) for _ in range(r.randint(2, 5))]]
        add(toks, r.choice([M24 + 1, M24 + 4096, 1 << 32, (1 << 32) + 5]), None, 1, 1, 'max-above-sanity-limit')
        toks = [(kd, g.token(kd)) for kd in [r.choice(['valid', 'false_span', 'false_plaus', 'unknown', 'edge16', 'nested', 'junk']) for _ in range(r.randint(2, 5))]]
        add(toks, r.choice([16, 64, 65, 150, 1000]), r.choice([16, 64, 100]), 1, 1, 'patched-sanity-limit')
    return cases


# ---- system level: FusionEngineEncoder -> FusionEngineDecoder (C04_decodes_encoder_output[_with_junk]) ---------------
def roundtrip_cases(ctx, eng, n):
    """n histories of one encoder instance; returns [(Case, expectation)]: the encoder's outputs concatenated (half of
    them with junk free of '.' before each message) and what the decoder must return for them"""
    r = ctx.rng
    lines, meta = [], []
    for i in range(n):
        k = r.choice([1, 2, 3, 5, 8])
        s0 = r.choice([0, 0, 1, 1000, (1 << 32) - 1, (1 << 32) - 2, (1 << 32) - k, r.getrandbits(32)])
        lines.append('%d %d %d' % (r.getrandbits(31), k, s0)); meta.append((k, s0))
    outs = vf.run_parallel([vf.PY, HARNESS, 'encode'], lines, env=vf.IMPL_ENV)
    res = []
    for (k, s0), o in zip(meta, outs):
        d = json.loads(o)
        if 'error' in d:
            ctx.violation({'kind': 'encoder-raises', 'exception': d['error'].split(':')[0]},
                          'FusionEngineEncoder.encode_message raised %s at initial sequence number %d' % (d['error'], s0), {'k': k, 's0': s0, 'detail': d})
            continue
        junk = r.random() < 0.5
        toks, exp, off = [], [], 0
        for j, m in enumerate(d['msgs']):
            out = bytes.fromhex(m['out'])
            if junk:
                jb = bytes(x if x != 0x2e else 0x2f for x in (r.randrange(256) for _ in range(r.choice([0, 1, 3, 24, 40]))))
                if jb:
                    toks.append(('junk', jb)); off += len(jb)
            toks.append(('encoded', out))
            exp.append({'type': m['type'], 'seq': (s0 + j) % (1 << 32), 'psize': len(m['payload']) // 2, 'raw': m['out'], 'off': off,
                        'end': off + len(out), 'version': m['version'], 'source': m['source'], 'payload': m['payload'], 'cls': m['cls']})
            off += len(out)
        c = Case(toks, M24, None, 1, 1, '', 'encoder-roundtrip' + ('-junk' if junk else ''), '%s,%d,%d' % (r.choice(['likely', 'all', 'none']), r.randrange(2), r.randrange(2)))
        n_ = len(c.stream)
        c.chunkings = 'ONE;BYTES;' + ';'.join('c:' + ','.join(map(str, random_partition(r, n_))) for _ in range(3))
        res.append((c, exp))
    return res


def roundtrip_check(ctx, eng, rt):
    """compare what the decoder returned (per call) with the encoder's INPUTS: header fields, raw bytes, running offsets,
    consecutive sequence numbers mod 2^32, the header bytes themselves, and the delivering call = the call that supplies
    the message's last byte"""
    if not rt:
        return
    res = eng.run([c for c, _ in rt], 'V')
    for (c, exp), r in zip(rt, res):
        if isinstance(r, str):
            raise RuntimeError(r)
        orc, ii, mm = r
        failing = {e.split(':')[1] for e in (orc.split(',') if orc != '-' else []) if e.split(':')[2] == '0'}
        if any(x['payload'] in failing or (x['payload'] == '' and '-' in failing) for x in exp):
            ctx.count('roundtrip:skipped (payload parser rejects an encoder-built payload: proviso of the theorem not met)')
            continue
        for ch, (ir, ia) in zip(expand_chunkings(c), ii):
            ctx.count('roundtrip:evaluations')
            sizes = [len(c.stream)] if ch == 'ONE' else [1] * len(c.stream) if ch == 'BYTES' else [int(x) for x in ch[2:].split(',') if x]
            ends, acc = [], 0
            for sz in sizes:
                acc += sz; ends.append(acc)
            want = []
            for x in exp:
                call = next(i for i, e in enumerate(ends) if e >= x['end'])
                hdr = bytes.fromhex(x['raw'])[:24]
                ok_hdr = (hdr[0:2] == b'.1' and hdr[2:4] == b'\0\0' and hdr[9] == x['version'] and struct.unpack_from('<H', hdr, 10)[0] == x['type']
                          and struct.unpack_from('<III', hdr, 12) == (x['seq'], x['psize'], x['source']) and x['raw'][48:] == x['payload'])
                want.append((call, x['type'], x['seq'], x['psize'], struct.unpack_from('<I', hdr, 4)[0], x['raw'], x['off'], ok_hdr))
            got = []
            for i, it in parse_items(ir):
                f = it.split(',')
                got.append((i,) + tuple(int(v) for v in f[:4]) + (f[4], int(f[5]) if f[5] != '-' else None, True) if len(f) >= 7 and '!' not in it else (i, it))
            if got != want or '?' not in ia and not ia.endswith('%d,0,1,0,%d;' % (len(c.stream), exp[-1]['seq'])):
                what = 'different' if len(got) == len(want) else 'count'
                for g, w_ in zip(got, want):
                    if g != w_:
                        what = ('header-bytes-not-the-inputs' if not w_[7] else 'delivering-call' if g[1:] == w_[1:] else
                                'sequence-number' if len(g) > 3 and g[3] != w_[3] else 'offset' if len(g) > 7 and g[6] != w_[6] else 'different')
                        break
                d = c.describe(); d.update({'chunking': ch, 'impl_R': ir, 'impl_A': ia[-120:], 'expected': [w_[:5] + (w_[6],) for w_ in want],
                                            'inputs': [{k: x[k] for k in ('cls', 'type', 'version', 'source', 'seq', 'off')} for x in exp]})
                ctx.violation({'kind': 'encoder-output-not-returned-exactly', 'what': what, 'junk': 'junk' in c.origin},
                              'messages built by FusionEngineEncoder and fed to FusionEngineDecoder (%s) do not come back as encoded: %s' % (ch[:40], what), d)


def common_evidence(ctx, eng, profile, cases):
    ctx.coverage['rule'] = (
        'streams = concatenations of tokens of %d kinds (%s); every registered payload class (%d buildable by the encoder, %d not) appears alone, '
        'followed by another message and between junk, with its default payload and a perturbed one, and as two or three messages of the same class with different parseable field values; for every class CRC-valid messages whose payload makes unpack() raise, one family per exception type found by a sweep over every length 0..size+8, constant / random bodies, every byte forced to 0xFF/0x00/0x80 and all values of the leading tag bytes (types found are listed in unpack_exception_types_per_class); size classes 1 KiB - 70 KiB (large valid, corrupted, truncated and false-header candidates with split points inside them, at their ends and fixed-size reads); bounded-exhaustive token sequences, '
        'for every class also CRC-failing variants (bit flipped in payload / crc field / header fields, and another message whose type field is re-pointed at the class) '
        'under each warn_on_error setting; sequences under all 16 (max_payload_len_bytes in {0,16,exact,2^24}) x (return_bytes, return_offset) settings, random sequences of 3-9 tokens, '
        'the logging options warn_on_error (none/likely/all), warn_on_gap, warn_on_unrecognized rotate over all streams (log output suppressed), '
        'maxima above 2^24 and runs with the sanity limit patched to a small value. Each stream is decoded by the implementation, by the extracted MODEL '
        '(PyDecoder_on_data) and by the extracted SPEC (feed PyDecoder_judge) under every listed chunking; per call the returned '
        '(type, sequence, payload size, crc, raw bytes, offset, digest of payload field values) are compared with the SPEC; callbacks (catch-all and type specific, registered before the first call and between calls) must receive exactly the entries returned after their registration; on_data is called with bytes, bytearray, memoryview and int arguments in rotation and the buffers of the caller are checked unmodified and then overwritten; the returned list is mutated by the caller; in a sixth of the runs a second decoder with other settings is fed another stream between the calls; in a seventh a user callback raises once and the decoder must stay usable; every earlier entry is re-read after later calls (header, raw bytes, payload values must not change) and entries must not share mutable objects with each other or the decoder buffer; '
        'and the private attributes with the MODEL. A case = (stream, settings, chunking); distinct by its content.'
        % (len(KINDS), ', '.join(KINDS), len(eng.lib.classes), len(eng.lib.unbuildable)))
    ctx.coverage['exhaustive'] = False
    ctx.coverage['streams'] = len(cases)
    ctx.trusted_base += [
        'Coq 8.16.1 kernel + vm_compute', 'extraction (ExtrOcamlBasic only), ocaml/conv.ml + ocaml/c04_driver.ml',
        'translators/gen_fe.py (sync bytes, header format/size, _MAX_EXPECTED_SIZE_BYTES, CRC polynomial)',
        'hand transcription of on_data / MessageHeader.unpack / validate_crc control flow into Models/PyDecoderM.v, held by the differential run',
        'struct.unpack_from and zlib.crc32 modelled by Base parse_header / crc32 (table-driven CRC-32 proved equal to the bit-serial definition)',
        'payload parsers (construct/numpy based unpack of each class) are a section variable of the model; for the differential run it is instantiated '
        'with the outcome of cls().unpack on the message bytes alone (harness/py/c04_streams.py)',
        'stream generator and IMPL harness harness/py/c04_streams.py, props/c04.py']
    ctx.assumptions += ['max_payload_len_bytes is a non-negative integer', 'data passed to on_data is bytes (the int form is a one-byte chunk)',
                        'log output is suppressed in the harness (logging.disable) and is not an observable of the property; the logging options themselves are varied']
    for c in cases[:3]:
        ctx.sample({'tokens': [k for k, _ in c.tokens], 'bytes': len(c.stream), 'max_payload_len_bytes': c.maxp, 'chunkings': c.chunkings[:80]})


def run(ctx):
    eng = Engine(ctx, 'C04')
    cases = build_cases(ctx, eng.lib, 'C04')
    rt = roundtrip_cases(ctx, eng, 1500 if ctx.thorough else 250)
    cases += [c for c, _ in rt]
    ctx.log('%d streams, %d (stream, chunking) evaluations' % (len(cases), sum(n_chunkings(c) for c in cases)))
    eng.evaluate(cases)
    roundtrip_check(ctx, eng, rt)
    ctx.coverage['roundtrip_rule'] = ('system level (C04_decodes_encoder_output[_with_junk]): %d histories of one FusionEngineEncoder (1-8 messages of random '
                                      'registered classes, random source ids, initial counters incl. 2^32-1 and 2^32-k), concatenated (half with junk free '
                                      "of '.' before each message), decoded in one call, byte by byte and under 3 random partitions; the returned entries are "
                                      'compared with the INPUTS (type, version, source id, payload bytes, consecutive sequence numbers mod 2^32, raw bytes '
                                      '= encoder outputs, offsets = running sums, delivering call = the one supplying the last byte, empty buffer at the end)' % len(rt))
    # the vm_compute witness of C04_exact_refuted, replayed on the implementation
    w = [c for c in cases if c.origin == 'corpus:coq-witness-bad-pose.json']
    if w:
        sig, _, v = eng.signature_of(w[0], 'ONE')
        ok = bool(sig) and sig.get('kind') == 'crc-valid-message-not-returned'
        ctx.obligation('witness of C04_exact_refuted reproduces on the implementation (scan accepts the 27-byte Pose, on_data returns nothing)',
                       ok, 'witness-replay', json.dumps(v)[:400])
    common_evidence(ctx, eng, 'C04', cases)


def replay(ctx, rec):
    case = rec.get('case', rec)
    gen_fe.generate()
    pid = rec.get('property', 'C04')
    eng = Engine.__new__(Engine)
    eng.ctx, eng.pid = ctx, pid
    eng.model = vf.build_extracted(pid.lower(), pid, 'c04_driver.ml')
    eng.lib = Lib(ctx)
    eng.default_maxe = eng.lib.max_expected
    if 'tokens' not in case:
        print(json.dumps(case, indent=1)[:4000])
        return 0
    c = Case.from_desc(case)
    ch = case.get('chunking') or expand_chunkings(c)[0]
    c1, v = eng.verbose(c, ch)
    if c1 is None:
        print(v); return 1
    print('stream  ', c.stream.hex()); print('settings', {k: case.get(k) for k in ('max_payload_len_bytes', 'patched_MAX_EXPECTED_SIZE_BYTES', 'return_bytes', 'return_offset', 'logging_options')}, 'chunking', ch)
    print('IMPL    ', v['impl_R'], '|', v['impl_A'][-200:]); print('MODEL   ', v['model_R'], '|', v['model_A'][-200:]); print('SPEC    ', v['spec_R'])
    print('signature', classify(v['impl_R'], v['model_R'], v['spec_R']) if v['impl_R'] != v['spec_R'] else 'agree')
    return 0 if v['impl_R'] == v['spec_R'] else 1
