"""C18 — extraction of FusionEngine content is byte-exact, indexed and idempotent."""
import hashlib, json, os, struct, subprocess, zlib
from concurrent.futures import ThreadPoolExecutor
import vf
from translators import gen_fe, gen_c09

LEVEL = 'proof'
HARNESS = os.path.join(vf.VERIF, 'harness/py/c18_impl.py')
CORPUS = os.path.join(vf.VERIF, 'corpus', 'C18')
TIME_INVALID = 0xFFFFFFFF


# ---------------------------------------------------------------------------------------------------------
# byte-level construction (independent of the implementation: struct + zlib.crc32)
# ---------------------------------------------------------------------------------------------------------
def fe(ty, payload, seq=0, src=0, reserved=0, proto=2, ver=0):
    body = struct.pack('<BBHIII', proto, ver, ty, seq & 0xFFFFFFFF, len(payload), src) + payload
    return b'.1' + struct.pack('<H', reserved) + struct.pack('<I', zlib.crc32(body)) + body


def crc24q(data):
    c = 0
    for b in data:
        c ^= b << 16
        for _ in range(8):
            c <<= 1
            if c & 0x1000000:
                c ^= 0x1864CFB
    return c & 0xFFFFFF


def rtcm(payload):
    h = bytes([0xD3, (len(payload) >> 8) & 3, len(payload) & 0xFF]) + payload
    return h + crc24q(h).to_bytes(3, 'big')


class Gen:
    def __init__(self, rng, templates):
        self.r = rng
        self.t = templates
        self.timed = [int(k) for k, v in templates.items() if v['timed']]
        self.untimed = [int(k) for k, v in templates.items() if not v['timed']]
        self.seq = 0

    def rb(self, n):
        return bytes(self.r.randrange(256) for _ in range(n))

    def stamp(self, ty, sec, frac):
        v = self.t[str(ty)]
        p = bytearray.fromhex(v['payload'])
        struct.pack_into('<II', p, v['sec_off'], sec, frac)
        return bytes(p)

    def nseq(self):
        self.seq += 1
        return self.seq

    def msg(self, kind):
        r = self.r
        if kind == 'msg-timed':
            ty = r.choice(self.timed)
            return fe(ty, self.stamp(ty, r.choice([0, 1, 12, 1000, 86400 * 7, (1 << 24) + 1, 1300000000, r.randrange(1 << 31), 0xFFFFFFFD]), r.choice([0, 1, 500000000, 999999999, 999999940, r.randrange(10 ** 9)])),
                      self.nseq(), r.choice([0, 0, 1, 7]))
        if kind == 'msg-invalidstamp':
            ty = r.choice(self.timed)
            s, f = r.choice([(TIME_INVALID, TIME_INVALID), (TIME_INVALID, 5), (7, TIME_INVALID)])
            return fe(ty, self.stamp(ty, s, f), self.nseq())
        if kind == 'msg-bigstamp':   # float seconds >= 0xFFFFFFFF: does not fit the u4 column of the index
            ty = r.choice(self.timed)
            s, f = r.choice([(0xFFFFFFFE, 0xFFFFFFFE), (0xFFFFFFFE, 1500000000), (0xFFFFFFFE, 999999999), (0xFFFFFFFE, 2000000001), (0xFFFFFFFD, 0xFFFFFFF0)])
            return fe(ty, self.stamp(ty, s, f), self.nseq())
        if kind == 'msg-untimed':
            ty = r.choice(self.untimed)
            return fe(ty, bytes.fromhex(self.t[str(ty)]['payload']), self.nseq(), r.choice([0, 3]))
        if kind == 'msg-unknown':
            return fe(r.choice([1, 2, 9999, 20000, 60001, 65535]), self.rb(r.choice([0, 1, 5, 40, 300])), self.nseq())
        if kind == 'msg-large':      # > 1 KiB, >= 4 KiB, and the largest the block indexer guarantees (16384 bytes in all) and one less
            n = r.choice([1500, 4096, 16384 - 24, 16383 - 24])
            return fe(r.choice([60006, 13120]), bytes((i * 31 + n) & 0xFF for i in range(n)), self.nseq())
        if kind == 'msg-type0':
            return fe(0, self.rb(r.choice([0, 3, 17])), self.nseq())
        if kind == 'msg-empty':
            return fe(r.choice(self.timed + self.untimed + [777]), b'', self.nseq())
        if kind == 'msg-reserved':   # reserved bytes are not covered by the CRC and not tested by the reader/indexer
            ty = r.choice(self.timed)
            return fe(ty, self.stamp(ty, 33, 0), self.nseq(), reserved=r.choice([1, 0x3131, 0xFFFF]))
        if kind == 'msg-shortpayload':  # CRC-valid known type whose payload is cut short (class unpack fails)
            ty = r.choice(self.timed)
            p = self.stamp(ty, 44, 250000000)
            return fe(ty, p[:r.choice([1, 4, 8, 9, max(1, len(p) - 1)])], self.nseq())
        if kind == 'msg-sync-in-payload':
            return fe(60002, self.rb(5) + b'.1' + self.rb(30) + b'.1', self.nseq())
        if kind == 'wrapper':        # valid messages nested in the payload of a valid message: only the outer one counts
            inner = self.msg('msg-timed') + self.rb(3) + self.msg('msg-unknown')
            return fe(r.choice([13120, 60003]), self.rb(4) + inner + self.rb(2), self.nseq())
        raise KeyError(kind)

    def piece(self, kind):
        r = self.r
        if kind.startswith('msg-') or kind == 'wrapper':
            return self.msg(kind)
        if kind == 'junk':
            return self.rb(r.choice([1, 2, 7, 23, 24, 25, 100]))
        if kind == 'junk-sync':
            # (the size field of a random false header is kept small: the model computes claimed sizes in unary)
            t = bytearray(self.rb(r.choice([0, 1, 5, 21, 22, 23, 40])))
            if len(t) >= 18 and r.random() < 0.9:
                t[16:18] = b'\x00\x00'
            return self.rb(r.randrange(4)) + b'.1' + bytes(t)
        if kind == 'junk-sync-run':
            return b'.1' * r.choice([1, 2, 12, 13]) + b'.'
        if kind == 'rtcm':
            return rtcm(self.rb(r.choice([0, 6, 30])) + r.choice([b'', b'.1', b'.1\x00\x00']) + self.rb(r.choice([0, 19])))
        if kind == 'false-header-huge':     # payload_size above _MAX_EXPECTED_SIZE_BYTES
            return b'.1' + self.rb(14) + struct.pack('<I', r.choice([(1 << 24) + 1, 0x7FFFFFFF, 0xFFFFFFFF])) + self.rb(4)
        if kind == 'false-header-max':      # payload_size exactly the limit: accepted by the size test, runs past the end
            return b'.1' + self.rb(14) + struct.pack('<I', 1 << 24) + self.rb(4)
        if kind == 'false-header-large':    # payload_size below the limit, far past the end
            return b'.1' + self.rb(14) + struct.pack('<I', r.choice([16384, 70000, 200000])) + self.rb(4)
        if kind == 'false-header-pastend':  # plausible size, body missing
            return b'.1' + self.rb(14) + struct.pack('<I', r.choice([1, 50, 5000])) + self.rb(4 + r.choice([0, 10]))
        if kind == 'corrupt-payload':
            m = bytearray(self.msg(r.choice(['msg-timed', 'msg-unknown', 'msg-untimed'])))
            i = r.choice([j for j in range(8, len(m)) if j not in (18, 19)])   # (not the high size bytes: unary sizes in the model)
            m[i] ^= 1 << r.randrange(8)
            return bytes(m)
        if kind == 'corrupt-crc':
            m = bytearray(self.msg('msg-timed'))
            m[4 + r.randrange(4)] ^= 1 << r.randrange(8)
            return bytes(m)
        if kind == 'corrupt-sync':
            m = bytearray(self.msg('msg-timed'))
            m[r.randrange(2)] ^= 0x40
            return bytes(m)
        if kind == 'corrupt-nested':        # a corrupted wrapper: the valid messages inside it surface
            m = bytearray(self.msg('wrapper'))
            m[4] ^= 0x10
            return bytes(m)
        if kind == 'truncated':
            m = self.msg(r.choice(['msg-timed', 'msg-unknown']))
            return m[:r.choice([1, 2, 3, 23, 24, 25, len(m) - 1])]
        if kind == 'truncated-nested':      # cut wrapper whose complete inner messages must be found after the skip
            m = self.msg('wrapper')
            return m[:len(m) - r.choice([1, 2, 3])]
        raise KeyError(kind)


TEMPLATES = {}


def twin(pieces):
    """the same capture recorded at other P1 times: every message of a timed type gets its seconds field moved (CRC redone);
    all sizes and offsets stay the same, the extracted output has the same byte size but other content / index times"""
    out, changed = [], False
    for k, h in pieces:
        b = bytearray.fromhex(h)
        if (k.startswith('msg-') or k == 'wrapper') and len(b) >= 24 and b[:2] == b'.1':
            ty, psize = struct.unpack_from('<H', b, 10)[0], struct.unpack_from('<I', b, 16)[0]
            t = TEMPLATES.get(str(ty))
            if t and t.get('timed') and psize == len(b) - 24 and psize >= t['sec_off'] + 8:
                off = 24 + t['sec_off']
                sec = struct.unpack_from('<I', b, off)[0]
                struct.pack_into('<II', b, off, (sec % 1000000) + 490, 250000000)
                struct.pack_into('<I', b, 4, zlib.crc32(bytes(b[8:])))
                changed = True
        out.append([k, bytes(b).hex()])
    return out if changed else None


MSG_KINDS = ['msg-timed', 'msg-invalidstamp', 'msg-untimed', 'msg-unknown', 'msg-type0', 'msg-empty', 'msg-reserved',
             'msg-shortpayload', 'msg-sync-in-payload', 'wrapper', 'msg-bigstamp']
NOISE_KINDS = ['junk', 'junk-sync', 'junk-sync-run', 'rtcm', 'false-header-huge', 'false-header-large', 'false-header-pastend',
               'corrupt-payload', 'corrupt-crc', 'corrupt-sync', 'corrupt-nested', 'truncated', 'truncated-nested']
ALL_KINDS = MSG_KINDS + NOISE_KINDS + ['false-header-max', 'msg-large']


def make_cases(ctx, templates):
    g = Gen(ctx.rng, templates)
    r = ctx.rng
    cases = []

    def add(kinds):
        cases.append([[k, g.piece(k).hex()] for k in kinds])
    add([])                                              # empty file
    for k in MSG_KINDS + NOISE_KINDS:                    # every kind alone, and between two plain messages
        add([k])
        add(['msg-timed', k, 'msg-untimed'])
        add([k, 'msg-timed'])
        add(['msg-unknown', k])
    for k in NOISE_KINDS:                                # message-free files
        add([k, r.choice(NOISE_KINDS)])
    for _ in range(4):                                   # large messages (1.5 KiB ... 16384 bytes in all), alone and between others
        add(['msg-large'])
    add(['msg-timed', 'msg-large', 'junk-sync', 'msg-large', 'msg-untimed'])
    add(['truncated', 'msg-large'])
    add(['false-header-max'])                            # a header claiming exactly _MAX_EXPECTED_SIZE_BYTES (slow in the model: unary size)
    add(['msg-timed', 'false-header-max', 'msg-untimed'])
    add(['msg-timed'] * 12)
    add(['msg-timed', 'msg-type0'])                      # last message of type 0: the saved index has no EOF marker
    add(['msg-type0', 'msg-timed'])
    # inputs that span more than one 80 KiB indexer block (~1 KiB messages back to back, messages across the boundary)
    for _ in range(3 if ctx.thorough else 1):
        big, size, i = [], 0, 0
        while size < 81920 + 9000:
            m = g.piece('msg-timed') if i % 7 == 3 else fe(60030 + i % 2, bytes((i * 5 + j) & 0xFF for j in range(800 + (i * 97) % 500)), 5000 + i)
            big.append(['msg-timed' if i % 7 == 3 else 'msg-unknown', m.hex()])
            size += len(m); i += 1
            if i % 30 == 0:
                big.append(['junk', b'\x00.1junk'.hex()]); size += 8
        cases.append(big)
    n = 1500 if ctx.thorough else 150
    for _ in range(n):
        k = r.choice([1, 2, 3, 4, 6, 9])
        kinds = []
        for _ in range(k):
            kinds.append(r.choice(MSG_KINDS) if r.random() < 0.55 else r.choice(NOISE_KINDS))
        add(kinds)
    return cases


def file_of(pieces):
    return b''.join(bytes.fromhex(h) for _, h in pieces)


# ---------------------------------------------------------------------------------------------------------
# running IMPL / MODEL / SPEC on a list of cases
# ---------------------------------------------------------------------------------------------------------
def impl_env():
    return dict(vf.IMPL_ENV)


def run_impl(ctx, mode, recs, nproc=None):
    """recs: list of dicts with 'id'. Shards over processes; returns dict id -> result."""
    nproc = max(1, min(nproc or vf.NCPU, len(recs)))
    shards = [recs[i::nproc] for i in range(nproc)]

    def one(i):
        tmp = os.path.join(ctx.tmp, 'impl%d_%d' % (i, len(os.listdir(ctx.tmp))))
        os.makedirs(tmp, exist_ok=True)
        p = subprocess.run([vf.PY, HARNESS, mode, tmp], input='\n'.join(json.dumps(x) for x in shards[i]) + '\n',
                           capture_output=True, text=True, env=impl_env(), timeout=3000)
        out = [json.loads(l) for l in p.stdout.split('\n') if l.strip()]
        if len(out) != len(shards[i]):
            raise RuntimeError('c18 harness produced %d results for %d cases: %s' % (len(out), len(shards[i]), p.stderr[-1500:]))
        return out
    with ThreadPoolExecutor(nproc) as ex:
        outs = list(ex.map(one, range(nproc)))
    return {o['id']: o for sh in outs for o in sh}


def hx(b):
    return b.hex() or '-'


def parse_model_x(line):
    d = dict(kv.split('=', 1) for kv in line.split(';'))
    unhex = lambda s: None if s == 'none' else ('' if s == '-' else s)
    counts = {}
    if d['counts']:
        for kv in d['counts'].split(','):
            k, v = kv.split(':')
            counts[k] = int(v)
    return {'out': unhex(d['out']), 'idx': unhex(d['idx']), 'count': int(d['count']), 'counts': counts}


def features(pieces, p1):
    f = sorted(set(k for k, _ in pieces))
    return f


# an earlier capture whose extraction occupies the output location in the two-step sequences (unknown types: no P1 table needed)
PRIOR_MSGS = [fe(60010, bytes(range(30)), 1), fe(60011, b'prior', 2), fe(60012, bytes(70), 3)]
PRIOR_FILE = b'\x01junk.' + PRIOR_MSGS[0] + b'.1xx' + PRIOR_MSGS[1] + PRIOR_MSGS[2] + b'tail'
PRIOR_OUT = b''.join(PRIOR_MSGS)


def over_spec(i, prior_idx, pieces=None):
    """what lies at the output path before the case's input is extracted into it"""
    k = int(i) % 5
    if k == 4:
        tw = twin(pieces) if pieces else None
        if tw is not None:      # an earlier extraction of the same capture at other P1 times: same output size, other content
            return {'kind': 'extract', 'hex': file_of(tw).hex(), 'save_index': True}
        k = 1
    if k == 0:
        return {'kind': 'files', 'out': PRIOR_OUT.hex(), 'idx': prior_idx}
    if k == 1:
        return {'kind': 'extract', 'hex': PRIOR_FILE.hex(), 'save_index': True}
    if k == 2:
        return {'kind': 'extract', 'hex': PRIOR_FILE.hex(), 'save_index': False}
    return {'kind': 'extract', 'hex': PRIOR_FILE.hex(), 'save_index': True, 'second_save_index': False}


def evaluate(ctx, model, cases, record=True):
    """cases: list of piece lists. Returns list (one per case) of lists of findings:
    ('violation', signature, text, casedict) or ('corr', text, casedict)."""
    files = [file_of(p) for p in cases]
    ids = ['%d' % i for i in range(len(cases))]
    frames_l = vf.run_parallel(model, ['F ' + hx(f) for f in files])
    if record:
        ctx.log('SPEC scan done')
    frames = [[] if l == '-' else [[int(a) for a in fr.split(':')] for fr in l.split(',')] for l in frames_l]
    # the two extra call variants (no return_counts / save_index=False) on every 2nd case and on all small batches
    prior_idx = vf.run_lines(model, ['I %s -' % hx(PRIOR_OUT)])[1][0]
    overs = [over_spec(i, prior_idx, pc) for i, pc in zip(ids, cases)]
    impl = run_impl(ctx, 'run', [{'id': i, 'hex': f.hex(), 'frames': fr, 'variants': len(cases) < 40 or int(i) % 2 == 0, 'over': ov}
                                 for i, f, fr, ov in zip(ids, files, frames, overs)])
    if record:
        ctx.log('IMPL done')
    tables = []
    for i in ids:
        r = impl[i]
        if 'harness_error' in r:
            raise RuntimeError('c18 harness error: %s\n%s' % (r['harness_error'], r.get('tb')))
        seen = {}
        for h, t in r['p1']:
            seen[h] = t
        tables.append(seen)
    tab = lambda t: ','.join('%s=%s' % (h, 'n' if v is None else v) for h, v in t.items()) or '-'
    mx = [parse_model_x(l) for l in vf.run_parallel(model, ['X %s %s' % (hx(f), tab(t)) for f, t in zip(files, tables)])]
    # SPEC-side fresh index of the (spec) output
    spec_out = [b''.join(f[o:o + n] for o, n in fr) for f, fr in zip(files, frames)]
    mi = vf.run_parallel(model, ['I %s %s' % (hx(o), tab(t)) for o, t in zip(spec_out, tables)])
    # MODEL of the extraction over the existing location (prior state as the implementation left it after step one)
    xo_lines = []
    for i, f, t, ov in zip(ids, files, tables, overs):
        pr = impl[i].get('over', {}).get('prior') or {'out': None, 'idx': None}
        xo_lines.append('XO %s %s %d %s %s' % (hx(f), tab(t), 0 if ov.get('second_save_index') is False else 1,
                                               'none' if pr['out'] is None else (pr['out'] or '-'), 'none' if pr['idx'] is None else (pr['idx'] or '-')))
    mxo = vf.run_parallel(model, xo_lines)
    results = []
    for ci, (pieces, f, fr, so, t) in enumerate(zip(cases, files, frames, spec_out, tables)):
        r = impl[ids[ci]]
        m = mx[ci]
        found = []
        n = len(fr)
        types = {}
        for o, ln in fr:
            ty = str(struct.unpack_from('<H', f, o + 10)[0])
            types[ty] = types.get(ty, 0) + 1
        big = any(v is not None and v >= TIME_INVALID for v in t.values())
        feat = {'bigstamp': big, 'type0_last': bool(fr) and struct.unpack_from('<H', f, fr[-1][0] + 10)[0] == 0}
        case = {'pieces': pieces, 'file_hex': f.hex(), 'spec_frames': fr, 'p1': t,
                'impl': {k: r.get(k) for k in ('x1', 'x2', 'x2b', 'x3', 'fresh', 'load', 'over')}, 'model': m, 'model_over': mxo[ci], 'over': overs[ci],
                'spec': {'out': so.hex() if n else None, 'count': n, 'counts': types}}

        def viol(obs, text, **kw):
            sig = dict(obs=obs, **feat)
            sig.update(kw)
            found.append(('violation', sig, text, case))
        x1 = r['x1']
        x2, x2b = r.get('x2', x1), r.get('x2b', dict(x1, idx=None))
        want_out = so.hex() if n else None
        excs = [(nm, x['ret']) for nm, x in (('extract(return_counts=True)', x1), ('extract()', x2), ('extract(save_index=False)', x2b)) if 'exc' in x['ret']]
        if 'x3' in r and 'exc' in r['x3']['ret']:
            excs.append(('second extraction', r['x3']['ret']))
        if 'fresh' in r and 'exc' in r['fresh']['ret']:
            excs.append(('fresh index of the output', r['fresh']['ret']))
        if excs:
            nm, e = excs[0]
            viol('exception', '%s raised %s: %s' % (nm, e['exc'], e['msg']), exc=e['exc'])
        else:
            if x1['out'] != want_out:
                if want_out is None:
                    viol('no-output', 'input without messages left an output file of %d bytes' % (len(x1['out']) // 2))
                else:
                    viol('output-bytes', 'output file differs from the concatenation of the %d scanned messages (%s vs %d bytes)'
                         % (n, 'no file' if x1['out'] is None else '%d bytes' % (len(x1['out']) // 2), len(so)))
            if x1['ret']['ok'] != [n, types]:
                viol('return', 'return value with return_counts is %r, expected %r' % (x1['ret']['ok'], [n, types]))
            if 'x2' in r and x2['ret']['ok'] != n:
                viol('return', 'return value without return_counts is %r, expected %d' % (x2['ret']['ok'], n))
            if x2['out'] != x1['out'] or x2['idx'] != x1['idx'] or x2b['out'] != x1['out']:
                viol('output-bytes', 'extractions of the same input into different paths differ')
            if x2b['idx'] is not None:
                viol('index-file', 'save_index=False wrote an index file')
            if not x1['input_unchanged'] or x1['input_p1i'] is not None:
                viol('input-touched', 'extraction modified the input file or wrote an index next to it')
            if n == 0:
                if x1['idx'] is not None:
                    viol('no-output', 'input without messages left an index file behind')
            else:
                fresh = r.get('fresh')
                if fresh is None:
                    pass
                elif x1['idx'] != fresh['idx']:
                    viol('index-vs-fresh', 'the .p1i written by the extraction differs from a fresh index of the output: %s vs %s'
                         % (show_idx(x1['idx']), show_idx(fresh['idx'])))
                ld = r.get('load')
                if ld is not None and not feat['type0_last'] and x1['idx'] is not None:
                    if 'exc' in ld:
                        viol('index-load', 'the written index is rejected for the output: %s %s' % (ld['exc'], ld['msg']), exc=ld['exc'])
                    elif ld['ok'] != x1['idx'][:-28]:
                        viol('index-load', 'the written index loads to entries other than the ones written')
                x3 = r.get('x3')
                if x3 is not None:
                    if x3['out'] != x1['out']:
                        viol('idempotence', 'extracting the output again gives different bytes')
                    elif x3['idx'] != x1['idx'] or x3['ret'] != x1['ret']:
                        viol('idempotence', 'extracting the output again gives a different index or count')
            ov = r.get('over')
            if ov is not None:
                second_saves = overs[ci].get('second_save_index', True)
                if 'exc' in ov['ret'] or (ov['first'] is not None and 'exc' in ov['first']):
                    e = ov['ret'] if 'exc' in ov['ret'] else ov['first']
                    viol('exception', 'extraction into an output path that already exists raised %s: %s' % (e['exc'], e['msg']), exc=e['exc'], prior_output=True)
                elif ov['out'] != want_out:
                    if want_out is None:
                        viol('no-output', 'a message-free input extracted over an existing output left a %d-byte output file behind' % (len(ov['out']) // 2), prior_output=True)
                    else:
                        viol('output-bytes', 'extracted over an existing output, the file is not the concatenation of this input\'s %d messages' % n, prior_output=True)
                elif ov['ret']['ok'] != [n, types]:
                    viol('return', 'extracted over an existing output, the return value is %r, expected %r' % (ov['ret']['ok'], [n, types]), prior_output=True)
                elif n and second_saves and ov['idx'] != x1['idx']:
                    viol('index-vs-fresh', 'extracted over an existing output, the .p1i is not the index of the new output', prior_output=True)
                elif not found:
                    d = dict(kv.split('=', 1) for kv in mxo[ci].split(';'))
                    unhex = lambda s: None if s == 'none' else ('' if s == '-' else s)
                    if ov['out'] != unhex(d['out']) or ov['idx'] != unhex(d['idx']):
                        found.append(('corr', 'extract-over-existing-location model differs from the implementation (out %s, idx %s)'
                                      % (ov['out'] == unhex(d['out']), ov['idx'] == unhex(d['idx'])), case))
            # correspondence IMPL vs MODEL (only when IMPL agrees with SPEC: otherwise the violation is the report)
            if not found:
                if x1['out'] != m['out'] or x1['ret']['ok'] != [m['count'], m['counts']] or x1['idx'] != m['idx']:
                    found.append(('corr', 'extraction model differs from the implementation (out %s, ret %s, idx %s)'
                                  % (x1['out'] == m['out'], x1['ret']['ok'] == [m['count'], m['counts']], x1['idx'] == m['idx']), case))
                elif n and r.get('fresh') and r['fresh']['idx'] != (None if mi[ci] == 'none' else mi[ci]):
                    found.append(('corr', 'fresh-index model differs from fast_generate_index on the output', case))
        if record:
            ctx.case(hashlib.sha1(f).hexdigest()[:16], nontrivial=True)
            for k in set(k for k, _ in pieces):
                ctx.count('piece:' + k)
            ctx.count('messages:%s' % ('0' if n == 0 else '1' if n == 1 else '2-4' if n < 5 else '5+'))
            ctx.count('outcome:' + ('ok' if not found else found[0][0] + (':' + found[0][1]['obs'] if found[0][0] == 'violation' else '')))
        results.append(found)
    return results


def show_idx(h):
    if h is None:
        return 'none'
    b = bytes.fromhex(h)
    recs = [struct.unpack_from('<IHQ', b, i) for i in range(0, len(b) - len(b) % 14, 14)]
    return '[' + ' '.join('(%s,%d,%d)' % ('-' if t == TIME_INVALID else t, ty, off) for t, ty, off in recs[:8]) + (' ...]' if len(recs) > 8 else ']')


def shrink(ctx, model, pieces, sig):
    """greedy: drop pieces while the same signature persists"""
    cur = pieces
    for _ in range(12):
        if len(cur) <= 1:
            break
        cands = [cur[:i] + cur[i + 1:] for i in range(len(cur))]
        res = evaluate(ctx, model, cands, record=False)
        nxt = None
        for c, fnd in zip(cands, res):
            if any(x[0] == 'violation' and x[1] == sig for x in fnd):
                nxt = c
                break
        if nxt is None:
            break
        cur = nxt
    return cur


def load_corpus():
    out = []
    if os.path.isdir(CORPUS):
        for fn in sorted(os.listdir(CORPUS)):
            if fn.endswith('.json'):
                out.append(json.load(open(os.path.join(CORPUS, fn)))['pieces'])
    return out


def get_templates():
    p = subprocess.run([vf.PY, HARNESS, 'templates'], capture_output=True, text=True, env=impl_env(), timeout=300)
    if p.returncode != 0:
        raise RuntimeError('c18 templates failed: ' + p.stderr[-1500:])
    t = json.loads(p.stdout)
    if sum(1 for v in t.values() if v['timed']) < 5:
        raise RuntimeError('c18: fewer than 5 timed message templates')
    return t


def build_model():
    # Base.FEFormat.judge_fe computes N.to_nat payload_size (unary, up to 2^24 deep for a header that claims the maximum):
    # the extracted runner needs a large stack for that
    exe = vf.build_extracted('c18', 'C18', 'c18_driver.ml')
    return ['/bin/sh', '-c', 'ulimit -s unlimited 2>/dev/null || ulimit -s 4000000; exec ' + exe]


def run(ctx):
    gen_fe.generate()
    consts = gen_c09.generate()
    ctx.notes.append('generated index-file constants: %r' % consts)
    if not ctx.coq():
        ctx.broken_proof()
    elif ctx.thorough and not ctx.coqchk():
        ctx.broken_proof('coqchk rejected the compiled development')
    model = build_model()
    templates = get_templates()
    TEMPLATES.update(templates)
    corpus = load_corpus()
    cases = corpus + make_cases(ctx, templates)
    ctx.log('%d cases (%d from corpus)' % (len(cases), len(corpus)))
    results = evaluate(ctx, model, cases)
    ctx.log('evaluated')
    seen = set()
    for pieces, found in zip(cases, results):
        for x in found:
            if x[0] == 'violation':
                _, sig, text, case = x
                key = json.dumps(sig, sort_keys=True)
                if key in seen:
                    continue
                seen.add(key)
                small = shrink(ctx, model, pieces, sig)
                if small is not pieces:
                    again = evaluate(ctx, model, [small], record=False)[0]
                    hit = [y for y in again if y[0] == 'violation' and y[1] == sig]
                    if hit:
                        _, sig, text, case = hit[0]
                ctx.violation(sig, text, case)
            else:
                ctx.broken_correspondence(x[1], x[2])
    ok = [c for c, f in zip(cases, results) if not f]
    for c in ok[:: max(1, len(ok) // 4)][:4]:
        ctx.sample({'pieces': [k for k, _ in c], 'file_bytes': len(file_of(c))})
    # the command line tool on a few inputs (same observables through applications/p1_extract.py)
    ctx.log('shrunk / reported')
    app_cases = corpus + [c for c in cases if c][:: max(1, len(cases) // (8 if ctx.thorough else 2))][: (8 if ctx.thorough else 2)] + [[]]
    files = [file_of(c) for c in app_cases]
    fr = vf.run_parallel(model, ['F ' + hx(f) for f in files])
    app = run_impl(ctx, 'app', [{'id': str(i), 'hex': f.hex(), 'frames': []} for i, f in enumerate(files)], nproc=min(8, len(files)))
    for i, (f, l) in enumerate(zip(files, fr)):
        frames = [] if l == '-' else [[int(a) for a in x.split(':')] for x in l.split(',')]
        want = b''.join(f[o:o + n] for o, n in frames).hex() if frames else None
        a = app[str(i)]
        ctx.case(('app', hashlib.sha1(f).hexdigest()[:12])); ctx.count('p1_extract-tool')
        if 'harness_error' in a:
            raise RuntimeError('c18 app harness error: ' + a['harness_error'])
        if a['rc'] != 0 or a['out'] != want or (want is None and a['idx'] is not None):
            ctx.violation({'obs': 'p1_extract-tool', 'rc': a['rc']}, 'p1_extract on a %d-byte input: exit code %s, output %s the scanned messages; %s'
                          % (len(f), a['rc'], 'equals' if a['out'] == want else 'differs from', a['stderr'][-200:]),
                          {'pieces': app_cases[i], 'file_hex': f.hex(), 'app': a, 'spec_out': want})
    app_sequences(ctx, model, cases)
    ctx.coverage['rule'] = ('files = concatenations of 0-12 pieces of %d kinds (%s); every kind alone, after / before / between plain messages, pairs of noise '
                            'kinds, then %d random mixes; per file: extraction with and without return_counts and with save_index=False into separate explicit paths, '
                            'fresh index of a copy of the output by fast_generate_index(force_reindex), FileIndex load of the written .p1i, second extraction into a '
                            'third path, extraction over an output location that already holds an earlier output (files put there, or a first extraction with / without index; second with / without index); '
                            'the p1_extract tool as a subprocess on a sample, and p1_extract.main() in-process in %d sequences of 2-3 captures lying in one directory (names .bin/.raw/.rtcm3/none, all written before the first run) '
                            'extracted one after the other with varied options (prefixes ending in . p 1 l o g and in .p1log, pairs of prefixes sharing a stem, -o given / tool default, input passed as file or as directory, relative / absolute paths); after each step the whole directory tree is diffed: exactly <dir>/<prefix>.p1log and its .p1i may change (shapes: messages then message-free, messages then other messages, message-free then messages, same input twice, the same capture at other P1 times = equal output size but other index times ...); the .p1i bytes (times, types, offsets, marker) are compared with the model after every step. A case is distinct by the SHA-1 of the file.' % (len(ALL_KINDS), ', '.join(ALL_KINDS), 1500 if ctx.thorough else 150, 66 if ctx.thorough else 22))
    ctx.coverage['exhaustive'] = False
    ctx.trusted_base += ['Coq 8.16.1 kernel + vm_compute', 'extraction (ExtrOcamlBasic only), ocaml/conv.ml + c18_driver.ml',
                         'payload classes (cls().unpack / get_p1_time) are a parameter p1 of the model: the theorems hold for every p1; the correspondence run fills it with the values the library computes on the exact payload bytes (codec = C01)',
                         'fast_generate_index(input) = index of the sequential scan: C08 theorem index_is_scan_for_every_worker_count, composed with this model in Proofs/SystemLinkP.v (C18_extract_via_fast_index) under the 16 KiB precondition; the C08 development is part of the compiled closure',
                         'numpy: list -> structured array, astype to the raw dtype, tofile/fromfile (modelled: u4/u2/u8 little-endian records)',
                         'hand transcription of extract_fusion_engine_log / FileIndexBuilder / FileIndex.save / MixedLogReader._read_next control flow, held by correspondence',
                         'translators/gen_fe.py, translators/gen_c09.py (constants, record layout)', 'harness/py/c18_impl.py, generator in props/c18.py']
    ctx.notes.append('checklist audit: the written .p1i is loaded through FileIndex(index, data) and must be accepted with the written entries; P1 seconds 2^24+1, 1.3e9, random < 2^31, fractions 999999940 / 999999999 ns; '
                     'unknown and reserved-range types incl. return_counts keys; messages of 1.5 KiB, 4 KiB, 16383 and 16384 bytes; an input spanning two 80 KiB indexer blocks; warn_on_gaps=False; relative paths with another current directory; '
                     'pre-existing outputs; input bit-identical afterwards. Not required: creating a missing output directory (the property text does not say so; the code raises FileNotFoundError); extraction of a file onto itself is excluded.')
    ctx.assumptions += ['the output path is passed explicitly and differs from the input path (with the default output path a *.p1log input is opened for reading and truncating writing at once: outside the statement)',
                        'no stale <input>.p1i lies next to the input (the reader would consult it: C09)',
                        'every accepted message is <= 16 KiB (precondition of C08 for the block indexer); model run time limits generated files to a few KiB',
                        'P1 seconds are observed through isnan and the integer part only (binary64 abstracted to option N)']


def app_sequences(ctx, model, cases):
    """multi-step use of the application entry point: several captures in one directory extracted one after the other by
    p1_extract.main() into the SAME output (-o dir -p out); after every step the output location must hold exactly the
    extraction of that step's input."""
    r = ctx.rng
    pool = [c for c in cases if c][: 80]
    files = [file_of(c) for c in pool]
    fr = [[] if l == '-' else [[int(a) for a in x.split(':')] for x in l.split(',')] for l in vf.run_parallel(model, ['F ' + hx(f) for f in files])]
    withm = [i for i, x in enumerate(fr) if x]
    without = [i for i, x in enumerate(fr) if not x] or [None]
    if not withm:
        return
    nseq = 66 if ctx.thorough else 22
    # T = the capture A recorded at other P1 times (same sizes everywhere, so the output has the same byte size)
    twins = {}
    for i in withm:
        tw = twin(pool[i])
        if tw is not None:
            twins[i] = len(files)
            files.append(file_of(tw))
            fr.append(fr[i])
    shapes = ['AZ', 'AT', 'AC', 'ZA', 'TA', 'AZC', 'AA', 'ATZ', 'ACZ', 'ZZ', 'ATA']
    seqs = []
    for k in range(nseq):
        sh = shapes[k % len(shapes)]
        a = r.choice(sorted(twins)) if ('T' in sh and twins) else r.choice(withm)
        c = r.choice(withm)
        z = r.choice(without)
        seqs.append([{'A': a, 'C': c, 'Z': z, 'T': twins.get(a, c)}[ch] for ch in sh])
    # option values of the application entry point, varied per sequence / per step
    PREFIXES = ['out', 'session', 'session1', 'nav_log', 'gps_l1', 'run.', 'cap.p1log', 'p1', 'x.p', 'go', 'a1l', 'data2', 'log', None]
    fnames = ['cap%d.bin', 'cap%d.raw', 'cap%d', 'cap%d.rtcm3']
    dir_inputs = ['input.raw', 'input.bin', 'input.rtcm3']          # CANDIDATE_MIXED_FILES: found when a directory is passed
    recs = []
    for si, sq in enumerate(seqs):
        mode = si % 4          # 0: one prefix, one -o dir for all steps (every run lands on the previous output)
                               # 1: a different prefix per step in one -o dir (outputs side by side; pairs that share a stem)
                               # 2: inputs passed as directories, tool-default output dir, prefix per sequence or default
                               # 3: files in sub-directories, no -o (default = directory of the input), relative paths
        p0 = PREFIXES[si % len(PREFIXES)]
        steps = []
        for j, ix in enumerate(sq):
            f = b'' if ix is None else files[ix]
            st = {'hex': f.hex(), 'frames': [] if ix is None else fr[ix], 'relative': (si + j) % 3 == 0}
            if mode == 0:
                st.update(name=fnames[(si + j) % 4] % j, arg='file', o='extracted', p=p0 if p0 is not None else 'out')
            elif mode == 1:
                pair = [('session', 'session1'), ('nav_', 'nav_log'), ('gps_l', 'gps_l1'), ('run', 'run.'), ('cap', 'cap.p1log'), ('x', 'x.p')][(si // 4) % 6]
                st.update(name=fnames[(si + j) % 4] % j, arg='file', o='extracted', p=(pair + ('other%d' % j,))[j % 3])
            elif mode == 2:
                st.update(name='log%d/%s' % (j, dir_inputs[(si + j) % 3]), arg='dir', o=None, p=p0)
            else:
                st.update(name='sub/%s' % (fnames[(si + j) % 4] % j), arg='file', o=None, p=p0)
            steps.append(st)
        recs.append({'id': str(si), 'steps': steps})
    res = run_impl(ctx, 'appseq', recs)
    tab = lambda t: ','.join('%s=%s' % (h, 'n' if v is None else v) for h, v in t.items()) or '-'
    for si, rec in enumerate(recs):
        out = res[str(si)]
        if 'harness_error' in out:
            raise RuntimeError('c18 appseq harness error: %s\n%s' % (out['harness_error'], out.get('tb')))
        state = {os.path.normpath(st['name']): st['hex'] for st in rec['steps']}
        for j, (st, o) in enumerate(zip(rec['steps'], out['steps'])):
            f = bytes.fromhex(st['hex'])
            want = b''.join(f[a:a + n] for a, n in st['frames']).hex() if st['frames'] else None
            outdir = st['o'] if st['o'] else (os.path.dirname(st['name']) or '.')
            prefix = st['p'] if st['p'] is not None else 'fusion_engine'
            opath = os.path.normpath(os.path.join(outdir, prefix + '.p1log'))
            ipath = os.path.splitext(opath)[0] + '.p1i'
            over = opath in state
            prev_idx = state.get(ipath)
            for k, v in o['changed'].items():
                k = os.path.normpath(k)
                if v is None:
                    state.pop(k, None)
                else:
                    state[k] = v
            ctx.case(('appseq', si, j)); ctx.count('p1_extract.main-step:' + ('messages' if want else 'message-free') + (':over-existing' if over else ':fresh'))
            ctx.count('p1_extract.main-options:' + ('dir-input' if st['arg'] == 'dir' else 'file-input') + (',-o' if st['o'] else ',default-dir') + (',-p' if st['p'] is not None else ',default-prefix') + (',relative' if st['relative'] else ',absolute'))
            case = {'sequence': [{k: v for k, v in x.items() if k != 'frames'} for x in rec['steps']], 'step': j, 'argv': o.get('argv'),
                    'impl': {'ret': o['ret'], 'changed': o['changed']}, 'expected_output': opath, 'expected_index': ipath, 'spec_out': want}
            sig = {'obs': 'p1_extract-sequence', 'step': 'first' if j == 0 else 'later', 'input_has_messages': want is not None}
            others = sorted(os.path.normpath(k) for k in o['changed'] if os.path.normpath(k) not in (opath, ipath))
            if 'exc' in o['ret'] or o['ret']['ok'] not in (None, 0):
                ctx.violation(dict(sig, what='exit'), 'p1_extract.main() %r (step %d) ended with %r' % (o.get('argv'), j, o['ret']), case)
            elif state.get(opath) != want:
                got = state.get(opath)
                ctx.violation(dict(sig, what='output'), 'p1_extract %s (step %d): the requested output %s %s, expected %s%s'
                              % (' '.join(a if len(a) < 40 else '...' + a[-30:] for a in o.get('argv', [])), j, opath, 'is absent' if got is None else 'has %d bytes' % (len(got) // 2),
                                 'no file' if want is None else '%d bytes (the scanned messages of this input)' % (len(want) // 2),
                                 '; other files touched: %s' % others if others else ''), case)
            elif others:
                ctx.violation(dict(sig, what='other-files'), 'p1_extract (step %d) created / modified / deleted files other than the requested %s and its index: %s' % (j, opath, others), case)
            else:
                t = {h: v for h, v in o['p1']}
                m = parse_model_x(vf.run_lines(model, ['X %s %s' % (hx(f), tab(t))])[1][0])
                if want is not None and state.get(ipath) != m['idx']:
                    ctx.violation(dict(sig, what='index'), 'p1_extract step %d: %s is not the index of the new output (times / types / offsets / marker)' % (j, ipath), case)
                elif want is None and state.get(ipath) != prev_idx:
                    ctx.broken_correspondence('p1_extract on a message-free input: model leaves an earlier .p1i untouched, implementation differs', case)


def replay(ctx, rec):
    case = rec.get('case', rec)
    gen_fe.generate(); gen_c09.generate()
    model = build_model()
    TEMPLATES.update(get_templates())
    if 'sequence' in case:
        steps = []
        for x in case['sequence']:
            l = vf.run_lines(model, ['F ' + (x['hex'] or '-')])[1][0]
            steps.append(dict(x, frames=[] if l == '-' else [[int(a) for a in y.split(':')] for y in l.split(',')]))
        out = run_impl(ctx, 'appseq', [{'id': '0', 'steps': steps}])['0']
        bad = 0
        state = {}
        for j, (st, o) in enumerate(zip(steps, out['steps'])):
            f = bytes.fromhex(st['hex'])
            want = b''.join(f[a:a + n] for a, n in st['frames']).hex() if st['frames'] else None
            outdir = st['o'] if st['o'] else (os.path.dirname(st['name']) or '.')
            opath = os.path.normpath(os.path.join(outdir, (st['p'] if st['p'] is not None else 'fusion_engine') + '.p1log'))
            for k, v in o['changed'].items():
                state[os.path.normpath(k)] = v
            print('step %d argv %r: IMPL ret %r, files touched %r | SPEC: %s = %s' % (j, o.get('argv'), o['ret'], {k: (v and len(v) // 2) for k, v in o['changed'].items()}, opath, want and len(want) // 2))
            bad += state.get(opath) != want
        return 1 if bad else 0
    pieces = case['pieces']
    found = evaluate(ctx, model, [pieces], record=False)[0]
    f = file_of(pieces)
    print('input   %d bytes, pieces %s' % (len(f), [k for k, _ in pieces]))
    if not found:
        print('IMPL = MODEL = SPEC on this input')
        return 0
    for x in found:
        c = x[-1]
        print('IMPL ', json.dumps(c['impl'])[:1500])
        print('MODEL', json.dumps(c['model'])[:600])
        print('SPEC ', json.dumps(c['spec'])[:600])
        print(x[0], x[1] if x[0] == 'corr' else (x[1], x[2]))
    return 1
