"""C19 — yaw/heading conversions are mutually inverse and range-normalised.

IMPL  = yaw_to_heading / heading_to_yaw of <repo>/python/fusion_engine_client/messages/defs.py (harness/py/c19_impl.py)
SPEC  = Models/HeadingM.v (exact, over Q), extracted and run on the same inputs (ocaml/c19_driver.ml)
MODEL = Models/HeadingF.v (binary64, PrimFloat), evaluated by coqc/vm_compute on generated shards

failing-input search (IMPL vs exact SPEC), for every generated input x and both functions, degrees and radians:
  * (closeness tolerance: see tol(); it is the per-input bound proved for the model, not a flat number of ulps)
  * the call returns a finite real number (scalar) / an array of the input's shape,
  * RANGE, exactly: heading in [0, 360) resp. [0, 2 pi); yaw in [-180, 180) resp. [-pi, pi) (radian bounds are the
    binary64 constants 2*math.pi / math.pi: +math.pi is excluded like +180.0),
  * CLOSENESS: the circular distance between the returned value and the exact wrap(quarter_turn - x) is at most
    TOL_ULPS ulp at the scale max(|x|, SCALE) (SCALE = 512 for degrees, 8 for radians: the binade of a full turn
    plus one, because the code computes through `+ 360.0`).  The subtraction `90.0 - x` alone already costs half
    an ulp of max(|x|, 90), so no implementation of this shape can be closer than that.  Where that tolerance is
    half a turn or more (|x| >= 2^58 or so) closeness says nothing and only RANGE is checked (counted).
  * the Python-float, numpy-scalar, 1-D array and strided 2-D array calls return bit-identical values,
  * heading_to_yaw(yaw_to_heading(x)) and yaw_to_heading(heading_to_yaw(x)) are within twice that tolerance of x
    modulo a full turn.
correspondence: IMPL == MODEL bit for bit on every input (only checked where IMPL agrees with SPEC).
"""
import json, math, os, re, subprocess
from fractions import Fraction
import vf
from translators import gen_c19

LEVEL = 'proof'
TOL_ULPS = 4
SCALE = {'deg': 512.0, 'rad': 8.0}
FN = {'y2h': 'yaw_to_heading', 'h2y': 'heading_to_yaw'}
MODEL_FN = {('y2h', 'deg'): 'Heading_y2h_deg', ('y2h', 'rad'): 'Heading_y2h_rad',
            ('h2y', 'deg'): 'Heading_h2y_deg', ('h2y', 'rad'): 'Heading_h2y_rad'}
SHARD = 500
PI_BITS = 160
PI_50 = '3.14159265358979323846264338327950288419716939937510'


def pi_fraction():
    """floor(pi * 2^160) / 2^160 by Machin's formula in integer arithmetic; cross-checked against 50 known digits."""
    guard = 32
    one = 1 << (PI_BITS + guard)

    def atan_inv(n):
        t = one // n; s = t; k = 1; n2 = n * n
        while t:
            t //= n2; k += 2
            s += (-t if (k // 2) % 2 else t) // k
        return s
    p = 4 * (4 * atan_inv(5) - atan_inv(239))
    q = Fraction(p >> guard, 1 << PI_BITS)
    ref = Fraction(int(PI_50.replace('.', '')), 10 ** 50)
    if not (0 <= ref - q < Fraction(1, 1 << (PI_BITS - 1)) + Fraction(1, 10 ** 50)) or abs(q - ref) > Fraction(1, 10 ** 48):
        raise RuntimeError('pi computation does not reproduce the reference digits')
    return q


PI_Q = pi_fraction()
HALF_TURN = {'deg': Fraction(180), 'rad': PI_Q}


def nbrs(x, k):
    out = [x]
    a = b = x
    for _ in range(k):
        a = math.nextafter(a, -math.inf); b = math.nextafter(b, math.inf)
        out += [a, b]
    return out


def common_points(r, nrand, maxmag):
    pts = []
    for k in range(-60, 61):
        for s in (1.0, -1.0):
            pts.append((s * 2.0 ** k, 'pow2'))
    for k in (100, 500, 1000, 1023):
        pts += [(2.0 ** k, 'huge'), (-2.0 ** k, 'huge')]
    pts += [(1.7976931348623157e308, 'huge'), (-1.7976931348623157e308, 'huge'), (1e300, 'huge'), (-3e200, 'huge'), (2.0 ** 60 + 2.0 ** 9, 'huge')]
    for d in (5e-324, 1e-323, 2.0 ** -1060, 1e-310, 2.2250738585072009e-308, 2.2250738585072014e-308, 2.0 ** -1000, 1e-300):
        pts += [(d, 'denormal-or-tiny'), (-d, 'denormal-or-tiny')]
    pts += [(0.0, 'zero'), (-0.0, 'zero')]
    for _ in range(nrand):
        pts.append((r.uniform(-maxmag, maxmag), 'random-uniform'))
    for _ in range(nrand):
        pts.append((math.copysign(10.0 ** r.uniform(-6.0, math.log10(maxmag)), r.random() - 0.5), 'random-loguniform'))
    return pts


def deg_points(ctx):
    r = ctx.rng
    pts = [(45.0 * k, 'multiple-of-45') for k in range(-24, 25)]
    wraps = [90.0 * k for k in range(-12, 13)]
    wraps += [c + 360.0 * k for c in (0.0, 90.0, 180.0, 270.0) for k in (10, -10, 1000, -1000, 12345, -2912, 2 ** 20, -2 ** 20)]
    for w in wraps:
        pts += [(v, 'wrap-neighbour') for v in nbrs(w, 4)]
    grid = range(-1080 * 64, 1080 * 64 + 1)
    if not ctx.thorough:
        grid = sorted(r.sample(grid, 3000))
    pts += [(k / 64.0, 'grid-1/64') for k in grid]
    pts += common_points(r, 8000 if ctx.thorough else 900, 1e6)
    for k in (100000, -100000, 2777, -2778, 1000000):
        for c in (0.0, 90.0, 270.0):
            pts += [(v, 'large-magnitude') for v in nbrs(c + 360.0 * k, 2)]
    for _ in range(2000 if ctx.thorough else 200):
        pts.append((math.copysign(r.uniform(1e5, 6e7), r.random() - 0.5), 'large-magnitude'))
    return pts


def rad_points(ctx):
    r = ctx.rng
    pts = [(k * math.pi / 4.0, 'multiple-of-pi/4') for k in range(-24, 25)]
    wraps = set()
    for k in list(range(-12, 13)) + [40, -40, 4000, -4000, 49380, -11648, 2 ** 22, -2 ** 22]:
        wraps.add(k * math.pi / 2.0)
        wraps.add(k * (math.pi / 2.0))
        q = PI_Q * k / 2                       # correctly rounded k*pi/2
        wraps.add(q.numerator / q.denominator)
    for w in sorted(wraps):
        pts += [(v, 'wrap-neighbour') for v in nbrs(w, 4)]
    step = 1024 if ctx.thorough else 64
    grid = range(-19 * step, 19 * step + 1)
    if not ctx.thorough:
        grid = sorted(r.sample(grid, 1200))
    pts += [(k / float(step), 'grid-1/%d' % step) for k in grid]
    pts += common_points(r, 4000 if ctx.thorough else 500, 1e6)
    # large magnitudes: a slightly wrong period constant only shows after ~1e4..1e5 turns
    for v in (1e5, -1e5, 1e6, -1e6, 123456.789, -987654.321, 5e5, 7.5e5):
        pts.append((v, 'large-magnitude'))
    for k in (10000, 100000, 159154, -159154, 31831, -100001):
        q = PI_Q * 2 * k
        for v in nbrs(q.numerator / q.denominator, 2) + nbrs(k * (2.0 * math.pi), 1):
            pts.append((v, 'large-magnitude'))
    for _ in range(2000 if ctx.thorough else 300):
        pts.append((math.copysign(r.uniform(1e5, 1e6), r.random() - 0.5), 'large-magnitude'))
    return pts


def sem_points(pts, n=240):
    """inputs for the array calling-convention observations: corpus + an even sample, moderate magnitudes only
    (they are also cast to float32 / int64)"""
    ok = [x for x, _ in pts if abs(x) <= 1e6 and (x == 0.0 or abs(x) >= 1e-6)]
    step = max(1, len(ok) // n)
    return (ok[:40] + ok[40::step])[:n + 40]


def groups(pts, unit):
    """index lists into the input set by class, for the composed-array observations"""
    lim_small, lim_far = (45.0, 400.0) if unit == 'deg' else (0.7, 7.0)
    small = [i for i, (x, t) in enumerate(pts) if abs(x) < lim_small and t in ('grid-1/64', 'grid-1/1024', 'random-loguniform', 'zero')][:160]
    wrap = [i for i, (x, t) in enumerate(pts) if t == 'wrap-neighbour' and abs(x) < 3 * lim_far][:200]
    far = [i for i, (x, t) in enumerate(pts) if lim_far < abs(x) <= 1e6][:160]
    return {'small': small, 'wrap': wrap, 'far': far}


def array_lengths(ctx):
    """lengths of the array calls that are compared element-wise with the scalar results: small, around powers of two up
    to 2^17, and a few others; up to 2^21 + 1 in the thorough tier"""
    ls = [0, 1, 2, 3, 7, 8, 9, 255, 256, 257, 1023, 1024, 1025, 4095, 4096, 4097, 32767, 32768, 32769, 65535, 65536, 65537,
          100000, 131071, 131072, 131073, 216001, 262145]
    if ctx.thorough:
        ls += [524287, 524288, 524289, 1000000, 1048575, 1048576, 1048577, 2097153]
    return ls


def corpus_points():
    d = os.path.join(vf.VERIF, 'corpus', 'C19')
    out = {'deg': [], 'rad': []}
    if os.path.isdir(d):
        for fn in sorted(os.listdir(d)):
            if fn.endswith('.json'):
                for c in json.load(open(os.path.join(d, fn))):
                    out[c['unit']].append((float.fromhex(c['x']), 'corpus'))
    return out


def dedup(pts):
    seen, out = set(), []
    for x, tag in pts:
        h = x.hex()
        if h not in seen:
            seen.add(h); out.append((x, tag))
    return out


# ---------------------------------------------------------------------------------------------------
def run_impl(ctx, inputs):
    src = os.path.join(ctx.tmp, 'impl_in.json'); dst = os.path.join(ctx.tmp, 'impl_out.json')
    json.dump(inputs, open(src, 'w'))
    p = subprocess.run([vf.PY, os.path.join(vf.VERIF, 'harness/py/c19_impl.py'), src, dst], env=vf.IMPL_ENV,
                       capture_output=True, text=True, timeout=1800)
    if p.returncode != 0:
        err = '\n'.join(l for l in p.stderr.split('\n') if 'leap second' not in l)
        raise RuntimeError('IMPL harness failed: ' + err[-2000:])
    return json.load(open(dst))


def hx(n):
    return ('-%x' % -n) if n < 0 else ('%x' % n)


def run_spec(exe, unit, which, xs):
    H = HALF_TURN[unit]
    lines = []
    for x in xs:
        q = Fraction(x)
        lines.append('%s %s %s %s %s' % ('H' if which == 'y2h' else 'Y', hx(H.numerator), hx(H.denominator), hx(q.numerator), hx(q.denominator)))
    out = vf.run_parallel(exe, lines)
    res = []
    for x, l in zip(xs, out):
        a, b = l.split()
        v = Fraction(int(a, 16), int(b, 16))
        # sanity of the runner plumbing (hex conversion in the OCaml driver): the same formula in Python fractions
        q = Fraction(x)
        py = (H / 2 - q) % (2 * H) if which == 'y2h' else ((H / 2 - q + H) % (2 * H)) - H
        if v != py:
            raise RuntimeError('extracted SPEC runner and Python fractions disagree on %s %s %r: %s vs %s' % (which, unit, x, v, py))
        res.append(v)
    return res


def coq_lit(x):
    h = x.hex()
    return '(%s)%%float' % h


def run_model(ctx, cases, build=True):
    """cases: list of (model_fn_name, float). Returns list of float-hex strings (or 'nan'/'inf'/'-inf').
    build=False when Models/HeadingF.vo is known to be up to date (the property closure was just built)."""
    if build:
        vf.coq_make(['theories/Models/HeadingF.vo'])
    d = os.path.join(ctx.tmp, 'shards'); os.makedirs(d, exist_ok=True)
    names = []
    for i in range(0, len(cases), SHARD):
        nm = 'c19s%05d' % (i // SHARD)
        body = ['From Coq Require Import ZArith PrimFloat.', 'From FEC Require Import Models.HeadingF.']
        for fn, x in cases[i:i + SHARD]:
            body.append('Eval vm_compute in Heading_show (%s %s).' % (fn, coq_lit(x)))
        open(os.path.join(d, nm + '.v'), 'w').write('\n'.join(body) + '\n')
        names.append(nm)
    for k in range(0, len(names), 2000):
        chunk = names[k:k + 2000]
        cmd = ("printf '%%s\\n' %s | xargs -P%d -I{} sh -c 'timeout 600 coqc -R %s FEC -w none {}.v > {}.out 2> {}.err'"
               % (' '.join(chunk), vf.NCPU, vf.THEORIES))
        rc, so, se = vf.sh(cmd, cwd=d, timeout=3000)
    res = []
    pat = re.compile(r'=\s*\(\s*\(?(-?\d+)\)?(?:%Z)?\s*,\s*\(?(-?\d+)\)?(?:%Z)?\s*,\s*\(?(-?\d+)\)?(?:%Z)?\s*\)')
    for i, nm in enumerate(names):
        txt = open(os.path.join(d, nm + '.out')).read()
        got = pat.findall(txt.replace('\n', ' '))
        want = len(cases[i * SHARD:(i + 1) * SHARD])
        if len(got) != want:
            raise RuntimeError('model shard %s produced %d results for %d cases: %s' % (nm, len(got), want, open(os.path.join(d, nm + '.err')).read()[-1500:]))
        for c, m, e in got:
            c, m, e = int(c), int(m), int(e)
            if c == 0: res.append((0.0).hex())
            elif c == 1: res.append((-0.0).hex())
            elif c in (2, 3):
                v = math.ldexp(m, e)
                if Fraction(v) != Fraction(m) * Fraction(2) ** e:
                    raise RuntimeError('model value %d*2^%d is not a binary64' % (m, e))
                res.append((v if c == 2 else -v).hex())
            elif c == 4: res.append('inf')
            elif c == 5: res.append('-inf')
            else: res.append('nan')
    return res


def tol_flat(unit, x):
    return TOL_ULPS * Fraction(math.ulp(max(abs(x), SCALE[unit])))


def _ulp(v):
    """ulp of a real number (Fraction) in binary64 (>= Flocq's ulp: float() may round up to the next binade)"""
    return Fraction(math.ulp(float(v)))


PI_F = Fraction(math.pi)


def tol(unit, x, which='h2y'):
    """closeness tolerance for one input: the bound PROVED for the model (C19_heading_congruent_f / C19_yaw_congruent_f and
    the radian variants): half an ulp of (quarter turn - x) for the first subtraction, half an ulp of the intermediate sums,
    plus - radians only - what separates the binary64 constants math.pi/2, 2*math.pi from pi/2, 2 pi over the number of
    turns removed.  Never looser than needed, so a period constant that is off by one ulp shows at |x| ~ 1e5..1e6 rad."""
    q = Fraction(x)
    if unit == 'deg':
        a = 90 - q; fl_a = Fraction(90.0 - x)
        t = _ulp(a) / 2 + Fraction(1, 2 ** 44)
        if which == 'h2y':
            t += _ulp(fl_a + 180) / 2 + Fraction(1, 2 ** 45)
        return t
    c = Fraction(math.pi / 2.0); pf = Fraction(2.0 * math.pi)
    a = c - q; fl_a = Fraction(math.pi / 2.0 - x)
    t = _ulp(a) / 2 + _ulp(2 * pf) / 2
    t += abs(PI_Q / 2 - c) + (abs(fl_a) / pf + 3) * abs(2 * PI_Q - pf)
    if which == 'h2y':
        t += _ulp(fl_a + PI_F) / 2 + _ulp(pf) / 2 + abs(PI_Q - PI_F)
    return t


def circ(a, b, period):
    d = (a - b) % period
    return min(d, period - d)


def simplicity(x):
    m = Fraction(x).numerator
    return (bin(abs(m)).count('1') + abs(m).bit_length() // 8, abs(x))


def judge(unit, which, x, rh, spec):
    """classify one IMPL return value against the exact SPEC. returns None or (class, text)."""
    H = HALF_TURN[unit]; P = 2 * H
    # range bounds: exact for degrees; for radians the binary64 constants math.pi / 2*math.pi (the largest doubles below
    # pi / 2 pi), so that +math.pi itself is outside [-pi, pi) exactly as +180.0 is outside [-180, 180) - the radian
    # variant must agree with the degree variant at the wrap point; this is the range proved for the model.
    HB = H if unit == 'deg' else Fraction(math.pi)
    lo, hi = (Fraction(0), 2 * HB) if which == 'y2h' else (-HB, HB)
    name = '%s(%s, deg=%s)' % (FN[which], repr(x), unit == 'deg')
    if rh.startswith('EXC:'):
        return 'exception', '%s raised %s' % (name, rh[4:])
    if rh.startswith('TYPE:'):
        return 'bad-return-type', '%s returned a %s' % (name, rh[5:])
    r = float.fromhex(rh)
    if math.isnan(r) or math.isinf(r):
        return 'non-finite', '%s = %r for a finite input' % (name, r)
    q = Fraction(r)
    rng = '[0, 360)' if (unit, which) == ('deg', 'y2h') else '[-180, 180)' if unit == 'deg' else '[0, 2 pi)' if which == 'y2h' else '[-pi, pi)'
    if not (lo <= q < hi):
        return 'out-of-range', '%s = %r, outside %s (exact value: %.17g)' % (name, r, rng, float(spec))
    t = tol(unit, x, which)
    if 2 * t < H and circ(q, spec, P) > t:
        return 'wrong-angle', '%s = %r, the angle congruent to %s - x in %s is %.17g (off by %.3g, tolerance %.3g)' % (name, r, '90' if unit == 'deg' else 'pi/2', rng, float(spec), float(circ(q, spec, P)), float(t))
    return None


F_THEOREMS = ['C19_fmod_exact', 'C19_heading_range_f', 'C19_yaw_range_f', 'C19_heading_range_rad_f', 'C19_yaw_range_rad_f',
              'C19_heading_congruent_f', 'C19_yaw_congruent_f', 'C19_heading_congruent_rad_f', 'C19_yaw_congruent_rad_f',
              'C19_heading_yaw_inverse_f', 'C19_model_vs_spec_heading', 'C19_model_vs_spec_yaw', 'C19_F2Q_is_value', 'C19_legacy_refuted']


def axiom_names(ctx):
    """complete list of the names Print Assumptions reports for the binary64 theorems (the framework keeps only the
    first few hundred characters of each theorem's list)."""
    f = os.path.join(ctx.tmp, 'c19_axioms.v')
    open(f, 'w').write('From FEC Require Import Properties.C19.\n' + ''.join('Print Assumptions %s.\n' % t for t in F_THEOREMS))
    rc, so, se = vf.sh('timeout 300 coqc -R %s FEC -w none %s' % (vf.THEORIES, f), cwd=ctx.tmp, timeout=330)
    out = so                        # requiring the compiled Properties.C19 prints nothing itself
    names = sorted(set(re.findall(r"^([A-Za-z_][\w.']*)\s*(?::|$)", out, re.M)) - {'Axioms', 'Closed'})
    if rc != 0 or not names:
        return 'axiom names of the binary64 theorems: could not be listed (%s)' % (se[-200:],)
    prim = [n for n in names if '_spec' not in n and not n.startswith(('Classical', 'FunctionalExtensionality', 'Uint63.', 'FloatAxioms.'))
            and n not in ('Prim2SF_SF2Prim', 'SF2Prim_Prim2SF', 'Prim2SF_valid', 'Prim2SF_inj', 'SF2Prim_inj')]
    rest = [n for n in names if n not in prim]
    return ('every name Print Assumptions reports for the binary64 theorems %s: primitive types/operations (kernel): %s; axioms: %s'
            % (' '.join(F_THEOREMS), ' '.join(prim), ' '.join(rest)))


def run(ctx):
    info = gen_c19.generate()
    ctx.notes.append('generated: %r' % info)
    if not ctx.coq():
        ctx.broken_proof()
    spec_exe = vf.build_extracted('c19', 'C19', 'c19_driver.ml')
    if ctx.coq_ok:
        ctx.trusted_base.append(axiom_names(ctx))
    if ctx.thorough and ctx.coq_ok:
        # independent re-check of the compiled closure by coqchk; its axiom list goes into the evidence
        rc, so, se = vf.sh('timeout 1500 coqchk -o -silent -R theories FEC FEC.Properties.C19', cwd=vf.COQ, timeout=1600)
        txt = so + se
        ax = re.findall(r'^\s{4}(\S+)\s*$', txt.split('* Axioms:')[1].split('* Constants/Inductives')[0], re.M) if '* Axioms:' in txt else []
        clean = all(('* %s: <none>' % k) in txt for k in ('Constants/Inductives relying on type-in-type', 'Constants/Inductives relying on unsafe (co)fixpoints', 'Inductives whose positivity is assumed'))
        ctx.obligation('coqchk -o FEC.Properties.C19 (no type-in-type, unsafe fixpoints or assumed positivity)', rc == 0 and clean, 'coqchk', '%d axioms/primitives listed' % len(ax))
        ctx.notes.append('coqchk axioms: ' + ' '.join(sorted(ax)))
        if rc != 0 or not clean:
            ctx.broken_proof('coqchk rejects the compiled closure of Properties/C19: ' + txt[-800:])

    corp = corpus_points()
    pts = {'deg': dedup(corp['deg'] + deg_points(ctx)), 'rad': dedup(corp['rad'] + rad_points(ctx))}
    ctx.log('points: %d deg, %d rad' % (len(pts['deg']), len(pts['rad'])))
    sem = {u: sem_points(pts[u]) for u in pts}
    impl = run_impl(ctx, dict({u: [x.hex() for x, _ in pts[u]] for u in pts}, sem={u: [x.hex() for x in sem[u]] for u in sem}, lengths=array_lengths(ctx), groups={u: groups(pts[u], u) for u in pts}))
    ctx.log('IMPL done')

    failures = {}      # signature-key -> (simplicity, sig, text, case)

    def fail(sig, text, case, x):
        k = json.dumps(sig, sort_keys=True)
        s = simplicity(x)
        if k not in failures or s < failures[k][0]:
            failures[k] = (s, sig, text, case)

    model_cases, model_slots = [], []
    for unit in ('deg', 'rad'):
        xs = [x for x, _ in pts[unit]]
        P = 2 * HALF_TURN[unit]
        for which in ('y2h', 'h2y'):
            spec = run_spec(spec_exe, unit, which, xs)
            res = impl['%s_%s' % (which, unit)]
            for i, (x, tag) in enumerate(pts[unit]):
                ctx.case((which, unit, x.hex())); ctx.count('input:%s:%s' % (unit, tag))
                rs = res['scalar'][i]
                case = {'fn': FN[which], 'unit': unit, 'x_hex': x.hex(), 'x': repr(x), 'impl_scalar': rs,
                        'impl_npscalar': res['npscalar'][i], 'impl_array': res['array'][i], 'impl_array2d': res['array2d'][i],
                        'spec_exact': '%d/%d' % (spec[i].numerator, spec[i].denominator), 'spec_approx': float(spec[i])}
                bad = judge(unit, which, x, rs, spec[i])
                if bad is None:
                    for form in ('npscalar', 'array', 'array2d'):
                        if res[form][i] != rs:
                            bad = judge(unit, which, x, res[form][i], spec[i]) or ('scalar-array-differ', '%s(%r): Python-float call gives %s, %s call gives %s'
                                                                                    % (FN[which], x, rs, form, res[form][i]))
                            break
                if bad:
                    ctx.count('violation:' + bad[0])
                    fail({'fn': FN[which], 'unit': unit, 'class': bad[0]}, bad[1], case, x)
                else:
                    if 2 * tol(unit, x, which) >= HALF_TURN[unit]:
                        ctx.count('range-only(|x| too large for closeness)')
                    model_cases.append((MODEL_FN[(which, unit)], x)); model_slots.append((case, rs))
        # round trips: inverse up to a full turn, observed directly on the implementation
        rt = impl['roundtrip_%s' % unit]
        for key, names in (('yhy', 'heading_to_yaw(yaw_to_heading(x))'), ('hyh', 'yaw_to_heading(heading_to_yaw(x))')):
            for i, (x, tag) in enumerate(pts[unit]):
                rh = rt[key][i]
                ctx.count('roundtrip')
                t = 2 * tol_flat(unit, x)
                if rh.startswith(('EXC:', 'TYPE:')) or 2 * t >= HALF_TURN[unit]:
                    continue
                r = float.fromhex(rh)
                if math.isnan(r) or math.isinf(r) or circ(Fraction(r), Fraction(x), P) > t:
                    fail({'fn': 'roundtrip', 'unit': unit, 'class': 'not-inverse-modulo-full-turn', 'order': key},
                         '%s = %r for x = %r (%s): not x modulo a full turn' % (names, r, x, unit),
                         {'fn': 'roundtrip-' + key, 'unit': unit, 'x_hex': x.hex(), 'x': repr(x), 'impl': rh}, x)
    # calling conventions of the array form (input untouched, no aliasing, shapes, repeatability, array round trips)
    for it in impl.get('array_semantics', []):
        ctx.count('violation:array-semantics:' + it['issue'])
        k = json.dumps({'fn': it['fn'], 'unit': it['unit'], 'class': it['issue'], 'input_kind': it['input_kind']}, sort_keys=True)
        if k not in failures:
            failures[k] = ((0, 0.0), {'fn': it['fn'], 'unit': it['unit'], 'class': it['issue'], 'input_kind': it['input_kind']},
                           '%s, %s, %s input: %s' % (it['fn'], it['unit'], it['input_kind'], it['detail']),
                           {'fn': it['fn'], 'unit': it['unit'], 'semantics': True, 'input_kind': it['input_kind'], 'issue': it['issue'],
                            'detail': it['detail'], 'length': it.get('length'), 'inputs_hex': [x.hex() for x in sem[it['unit']]]})
    for u in sem:
        ctx.count('array-semantics inputs:%s' % u, len(sem[u]))
    # note for the evidence (the default unit is also a violation class of the argument-form observations: the analysis
    # code of the package calls yaw_to_heading(array) without `deg`)
    du = impl.get('default_unit', {})
    for which in ('y2h', 'h2y'):
        got = du.get(which, [])
        same = got == impl['%s_deg' % which]['scalar'][:len(got)]
        ctx.notes.append('default unit: %s(x) without deg %s %s(x, deg=True) on %d inputs' % (FN[which], 'equals' if same else 'DIFFERS from', FN[which], len(got)))
    ctx.log('IMPL vs SPEC done: %d failing signature(s)' % len(failures))
    for k in sorted(failures):
        _, sig, text, case = failures[k]
        ctx.violation(sig, text, case)

    # correspondence with the binary64 model
    mres = run_model(ctx, model_cases, build=not getattr(ctx, 'coq_ok', False))
    ctx.log('MODEL done (%d evaluations)' % len(model_cases))
    nbad = 0
    for (case, rs), m in zip(model_slots, mres):
        ctx.count('model-compared')
        if m != rs:
            nbad += 1
            if nbad == 1:
                case = dict(case, model=m)
                ctx.broken_correspondence('binary64 model and implementation differ: %s(%s, %s): impl %s model %s'
                                          % (case['fn'], case['x'], case['unit'], rs, m), case)
    if nbad:
        ctx.count('model-differs', nbad)
    for u in ('deg', 'rad'):
        ctx.sample({'unit': u, 'yaw_to_heading': [(pts[u][i][0], float.fromhex(impl['y2h_' + u]['scalar'][i])) for i in range(0, len(pts[u]), max(1, len(pts[u]) // 5))][:5]
                    if not any(s.startswith(('EXC', 'TYPE')) for s in impl['y2h_' + u]['scalar']) else 'n/a'})
    ctx.coverage['rule'] = ('degrees: every multiple of 45 in [-1080,1080]; %s of the grid k/64 over that interval; 4 nextafter neighbours on each side of every multiple of 90 in it '
                            'and of 0/90/180/270 + 360k for k = +-10, +-1000, 12345, -2912, +-2^20; +-2^k for k=-60..60; 2^100..2^1023, DBL_MAX; denormals and DBL_MIN; +-0; '
                            'uniform and log-uniform random magnitudes up to 1e6.  Large magnitudes (1e5..1e6 rad, to 6e7 deg, neighbours of 2*pi*k for k to 159154).  Composed arrays (all in range / all far / only wrap neighbours / one foreign element first, middle, last / interleaved) vs scalars.  Argument forms: Python int/bool, numpy int8..int64/uint8/bool scalars and arrays, 0-d arrays, lists/tuples (like arrays or TypeError/ValueError), masked arrays, float32/float16 (range and closeness in their own precision), positional/keyword/int/numpy-bool deg flag and its default; np.errstate raise/ignore/warn; NaN/inf elements (NaN out, neighbours untouched); earlier results re-checked at the end.  Array shapes: all (a, b) with a, b in 0..5, (k, N) / (N, k) for k = 1..4, 3-D / 4-D blocks, zero-length axes, C / Fortran / transposed - shape kept, elements equal the scalar results.  Array calls at lengths 0..262145 (to 2^21+1 thorough) around powers of two, 1-D and (n/8, 8), compared bit-for-bit with the scalar results; call histories on one array object (in-place changes of the input and of earlier results between calls, alternating units and functions, released/re-created arrays) compared with the scalar calls.  Array calling conventions (input bit-identical after the call, result not sharing memory with it, shape, repeatability, int arrays, array round trips reusing the original object) on ~280 inputs per unit as float64 1-D / strided view / 2-D / transposed view / 0-d / 1-element / read-only, float32, int64, list.  radians: the same with multiples of pi/4, neighbours of k*pi/2 computed three ways '
                            '(k*math.pi/2, k*(math.pi/2), correctly rounded k*pi/2), grid step 1/%d over [-19,19].  Each input is evaluated by both functions as Python float, '
                            'numpy scalar, 1-D array and strided 2-D array, compared with the exact SPEC (range exactly; closeness within the per-input bound proved for the model, %d-ulp-at-scale for round trips), '
                            'and bit-for-bit with the PrimFloat model.  A case is distinct by (function, unit, input bits).'
                            % ('all 138241 points' if ctx.thorough else '3000 random points', 1024 if ctx.thorough else 64, TOL_ULPS))
    ctx.coverage['exhaustive'] = False
    ctx.coverage['proof_vs_evaluation'] = ('PROOF: all C19_* theorems listed in obligation_list (exact SPEC over Q, and the binary64 range/partial theorems as named). '
                                           'EVALUATION (not proof): the IMPL-vs-SPEC closeness tolerance, scalar/array identity, and IMPL == MODEL on the generated inputs.')
    ctx.trusted_base += ['Coq 8.16.1 kernel + vm_compute; primitive floats (PrimFloat/FloatOps) as implemented by the Coq kernel',
                         'extraction (ExtrOcamlBasic only) of the exact SPEC and ocaml/c19_driver.ml (hex <-> Z/positive conversion)',
                         'glibc fmod (what np.fmod calls per element) modelled by Heading_fmod: exact remainder with the sign of the dividend, via Z arithmetic on mantissa/exponent; held by correspondence',
                         'numpy applies the same binary64 operations element-wise for Python floats, numpy scalars and arrays (checked by the run, not proved)',
                         'rational approximation of pi used by the radian SPEC comparison: floor(pi*2^160)/2^160 (Machin, integer arithmetic, cross-checked against 50 digits)',
                         'translators/gen_c19.py (math.pi of the interpreter), harness/py/c19_impl.py, props/c19.py (generators, tolerance arithmetic in fractions.Fraction)']
    ctx.assumptions += ['inputs are finite binary64 values (NaN/infinity are outside the property)',
                        'closeness tolerance per input = the bound proved for the model (half an ulp of (quarter turn - x) + half ulps of the intermediate sums; radians: + the distance of the binary64 pi constants from pi over the turns removed); where that reaches half a turn only the range is checked; round trips: %d ulp at scale max(|x|, 512 deg / 8 rad)' % (2 * TOL_ULPS)]


def replay(ctx, rec):
    case = rec.get('case', rec)
    if 'detail' in rec and 'case' in rec['detail']:
        case = rec['detail']['case']
    if case.get('semantics'):
        # regenerate the inputs of the recorded run (same seed and tier) and repeat all array / form / history observations
        import random
        ctx.rng = random.Random(rec.get('seed', ctx.seed)); ctx.thorough = rec.get('tier', 'quick') == 'thorough'
        gen_c19.generate()
        corp = corpus_points()
        pts = {'deg': dedup(corp['deg'] + deg_points(ctx)), 'rad': dedup(corp['rad'] + rad_points(ctx))}
        sem = {u: sem_points(pts[u]) for u in pts}
        lengths = [case['length']] if case.get('input_kind') == 'large-array' and case.get('length') is not None else array_lengths(ctx)
        impl = run_impl(ctx, dict({u: [x.hex() for x, _ in pts[u]] for u in pts}, sem={u: [x.hex() for x in sem[u]] for u in sem},
                                  lengths=lengths, groups={u: groups(pts[u], u) for u in pts}))
        shutil_rm(ctx)
        hits = [it for it in impl['array_semantics'] if it['fn'] == case['fn'] and it['unit'] == case['unit']]
        same = [it for it in hits if it['input_kind'] == case['input_kind'] and it['issue'] == case['issue']]
        print('recorded: %s, %s, %s input: %s: %s' % (case['fn'], case['unit'], case['input_kind'], case['issue'], case['detail']))
        for it in (same or hits):
            print('IMPL  %s, %s, %s input: %s: %s' % (it['fn'], it['unit'], it['input_kind'], it['issue'], it['detail']))
        if not hits:
            print('IMPL  no array / argument-form / history issue observed for %s (%s) now' % (case['fn'], case['unit']))
        print('SPEC  a call leaves its argument untouched, returns a fresh result of the same shape that equals, element by element and bit for bit, the scalar calls (which are compared with the exact SPEC and the model), whatever was called before')
        return 1 if hits else 0
    if 'x_hex' not in case:
        print(json.dumps(rec, indent=1)[:3000]); return 0
    gen_c19.generate()
    unit = case['unit']; x = float.fromhex(case['x_hex'])
    impl = run_impl(ctx, {'deg': [x.hex()] if unit == 'deg' else [], 'rad': [x.hex()] if unit == 'rad' else []})
    exe = vf.build_extracted('c19', 'C19', 'c19_driver.ml')
    rc = 0
    for which in ('y2h', 'h2y'):
        if case['fn'] not in (FN[which],) and not case['fn'].startswith('roundtrip'):
            continue
        res = impl['%s_%s' % (which, unit)]
        spec = run_spec(exe, unit, which, [x])[0]
        try:
            model = run_model(ctx, [(MODEL_FN[(which, unit)], x)])[0]
        except Exception as e:  # noqa
            model = 'unavailable: %r' % (e,)
        print('%s(%r, deg=%s)' % (FN[which], x, unit == 'deg'))
        print('  IMPL  scalar %s  npscalar %s  array %s  array2d %s' % (res['scalar'][0], res['npscalar'][0], res['array'][0], res['array2d'][0]))
        print('  MODEL %s' % model)
        print('  SPEC  %s = %.17g%s' % (spec, float(spec), '' if unit == 'deg' else '   (pi := floor(pi*2^160)/2^160)'))
        bad = judge(unit, which, x, res['scalar'][0], spec)
        if bad:
            print('  -> %s: %s' % bad); rc = 1
    if case['fn'].startswith('roundtrip'):
        print('  round trips: %r' % {k: v[0] for k, v in impl['roundtrip_' + unit].items()})
    shutil_rm(ctx)
    return rc


def shutil_rm(ctx):
    import shutil
    shutil.rmtree(ctx.tmp, ignore_errors=True)
