"""C15 — Time alignment yields equal-length, time-matched series without altering data."""
import itertools, json, os
import vf
from translators import gen_c15

LEVEL = 'proof'
HARNESS = [vf.PY, os.path.join(vf.VERIF, 'harness/py/c15_impl.py')]
MODES = ['D', 'I']


# ------------------------------------------------------------------------------------------------
# classes of the working tree, by how the implementation sees their P1 time
# ------------------------------------------------------------------------------------------------
def class_table():
    rc, out, err = vf.run_lines(HARNESS, [json.dumps({'flags': '*'})], env=vf.IMPL_ENV)
    if rc != 0 or not out or out[0].startswith('EXC'):
        raise RuntimeError('c15 harness failed to list classes: %s %s' % (out[:1], err[-1500:]))
    tab = {}
    for w in out[0].split():
        name, code, attr, num, tname = w.split(':')
        tab[tname] = {'cls': None if name == '-' else name, 'code': code == '1', 'attr': attr == '1', 'num': int(num), 'type': tname}
    return tab


def entry_key(e):
    return e['cls'] if e.get('cls') else 'type:' + e['type']


class Cases:
    def __init__(self, ctx, tab):
        self.ctx, self.tab = ctx, tab
        self.by_name = {entry_key(v): v for v in tab.values()}
        self.timed = [v['cls'] for v in tab.values() if v['cls'] and v['code']]
        self.via_details = [v['cls'] for v in tab.values() if v['cls'] and v['attr'] and not v['code']]
        self.timeless = [v['cls'] for v in tab.values() if v['cls'] and not v['attr']]
        self.classless = [v['type'] for v in tab.values() if not v['cls'] and v['num'] != 0]
        if len(self.timed) < 4:
            raise RuntimeError('fewer than 4 message classes with an instance attribute p1_time: %r' % self.timed)
        self.cases = []

    def add(self, mode, mt, entries, scale=1, mt_as='type', mt_container='list', origin='gen'):
        self.cases.append({'mode': mode, 'mt': mt, 'mt_as': mt_as, 'mt_container': mt_container, 'scale': scale,
                           'entries': entries, 'origin': origin})

    def ids(self, times_per_entry):
        """assign distinct, non-monotone ids across the whole case"""
        n = sum(len(t) for t in times_per_entry)
        perm = list(range(n))
        self.ctx.rng.shuffle(perm)
        it = iter(perm)
        return [[[t, next(it)] for t in ts] for ts in times_per_entry]

    def entry(self, name, msgs):
        return {'cls': name, 'msgs': msgs}

    def mt_choices(self, names, extra=True):
        """None + every subset of the entries' types"""
        out = [None]
        for k in range(len(names) + 1):
            for sub in itertools.combinations(names, k):
                out.append(list(sub))
        return out

    def exhaustive(self, ntypes, grid, class_tuples, mts=None, modes=MODES):
        r = self.ctx.rng
        subsets = [[g for i, g in enumerate(grid) if (b >> i) & 1] for b in range(1 << len(grid))]
        k = 0
        for combo in itertools.product(subsets, repeat=ntypes):
            names = class_tuples[k % len(class_tuples)]
            k += 1
            for mode in modes:
                for mt in (mts(names) if mts else self.mt_choices(names)):
                    msgs = self.ids(combo)
                    self.add(mode, mt, [self.entry(n, m) for n, m in zip(names, msgs)], origin='exhaustive%d' % ntypes)

    def random_case(self, maxn, maxt, ntypes=None):
        r = self.ctx.rng
        nt = ntypes or r.choice([2, 2, 3, 3, 4])
        pool = []
        for _ in range(nt):
            kind = r.random()
            src = self.timed if kind < 0.7 else (self.timeless if kind < 0.85 else (self.via_details or self.timeless))
            pool.append(r.choice(src))
        names = list(dict.fromkeys(pool))
        while len(names) < 2:
            c = r.choice(self.timed)
            if c not in names:
                names.append(c)
        times = []
        for _ in names:
            n = r.choice([0, 1, 2, 3, r.randint(0, maxn)])
            style = r.random()
            ts = [r.randint(0, maxt) for _ in range(n)]
            if style < 0.4:
                ts = sorted(set(ts))
            elif style < 0.6:
                ts = sorted(ts)
            times.append(ts)
        msgs = self.ids(times)
        entries = [self.entry(n, m) for n, m in zip(names, msgs)]
        if self.classless and r.random() < 0.08:
            entries.insert(r.randint(0, len(entries)), {'cls': None, 'type': r.choice(self.classless), 'msgs': []})
        q = r.random()
        if q < 0.3:
            mt = None
        else:
            cand = [n for n in names] + [r.choice(self.timed + self.timeless)]
            mt = [n for n in cand if r.random() < 0.6]
        return dict(mode=r.choice(['D', 'I', 'D', 'I', 'N']), mt=mt, entries=entries, scale=r.choice([1, 4, 8, 10, 10, 1000, 3]),
                    mt_as=r.choice(['type', 'class', 'mixed']), mt_container=r.choice(['list', 'tuple', 'set']),
                    mode_form=r.choice(['member', 'member', 'int', 'np']), call=r.choice(['class', 'class', 'instance', 'keyword']), origin='random')


# ------------------------------------------------------------------------------------------------
# lines for the extracted model / spec
# ------------------------------------------------------------------------------------------------
def model_line(cmd, case, tab_by_name, flag):
    def num(n):
        return tab_by_name[n]['num']
    mt = case['mt']
    mts = '*' if mt is None else 'l:' + ','.join(str(num(n)) for n in mt)
    es = []
    for e in case['entries']:
        info = tab_by_name[entry_key(e)]
        ms = ','.join('%d:%d' % (t, i) for t, i in e['msgs']) or '-'
        es.append('%d/%d/%s' % (info['num'], 1 if info[flag] else 0, ms))
    return ' '.join([cmd, case['mode'], mts] + es)


def expand(out, case):
    """model/spec output -> per-entry item lists with Untouched expanded to the input objects"""
    if not out.startswith('OK'):
        return out
    parts = out.split(' ')[1:]
    res = []
    for p, e in zip(parts, case['entries']):
        if p == 'U':
            res.append('R:' + ','.join('K%d:%d' % (t, i) for t, i in e['msgs']))
        else:
            res.append(p)
    return 'OK ' + ' '.join(res)


def split_impl(s):
    """'OK ... FLAGS | lists=..' -> (observable, flags, lists)"""
    if not s.startswith('OK'):
        return s, [], ''
    main, _, adv = s.partition(' | ')
    words = main.split(' ')
    flags = [w for w in words if w in ('MUTATED', 'RET', 'KEYS', 'EARLIER', 'REREAD', 'ARGMUT')]
    return ' '.join(w for w in words if w not in flags), flags, adv


def classify(case, impl, spec, spec_codeflags, tabn):
    """structural signature of a disagreement between the implementation and the SPEC"""
    sig = {'mode': case['mode']}
    if impl.startswith('EXC'):
        sig['kind'] = 'exception:' + impl.split(':')[1]
        if any(e.get('cls') is None for e in case['entries']):
            sig['input'] = 'entry-without-payload-class'
        return sig
    if impl == spec_codeflags:
        sig['kind'] = 'p1-time-via-details-type-not-aligned'
        return sig
    si, ss = impl.split(' ')[1:], spec.split(' ')[1:]
    if len(si) != len(ss):
        sig['kind'] = 'entry-count'
        return sig
    kinds = set()
    for a, b, e in zip(si, ss, case['entries']):
        if a == b:
            continue
        ia, ib = [x for x in a[2:].split(',') if x], [x for x in b[2:].split(',') if x]
        info = tabn[entry_key(e)]
        aligned = info['attr'] and (case['mt'] is None or entry_key(e) in case['mt']) and case['mode'] != 'N'
        if not aligned:
            kinds.add('non-aligned-type-modified')
        elif any(x.startswith(('B', 'X')) for x in ia):
            kinds.add('inserted-message-not-default')
        elif any(x.startswith('T!') for x in ia):
            kinds.add('kept-message-time-changed')
        elif len(ia) != len(ib):
            kinds.add('length-differs')
        elif [x.lstrip('KF').split(':')[0] for x in ia] != [x.lstrip('KF').split(':')[0] for x in ib]:
            kinds.add('times-differ')
        else:
            kinds.add('identity-differs')
    sig['kind'] = '+'.join(sorted(kinds)) or 'other'
    return sig


CASE_KEYS = ('mode', 'mt', 'mt_as', 'mt_container', 'scale', 'entries', 'steps', 'via', 'tmpdir', 'read_as', 'extra_entries', 'pre', 'pre_requested',
             'mode_form', 'call')


def impl_json(case):
    return json.dumps({k: case[k] for k in CASE_KEYS if k in case})


def public(case):
    return {k: case[k] for k in CASE_KEYS if k in case and k != 'tmpdir'}


def next_state(spec_expanded, entries, next_id):
    """entries after a step, from the SPEC's output: kept objects keep their id, inserted ones are numbered in
    (entry, position) order — the same rule the harness uses"""
    out = []
    for word, e in zip(spec_expanded.split(' ')[1:], entries):
        if e.get('cls') is None:
            out.append(e); continue
        msgs = []
        for it in [x for x in word[2:].split(',') if x]:
            if it[0] == 'K':
                t, i = it[1:].split(':')
                msgs.append([int(t), int(i)])
            else:
                msgs.append([int(it[1:]), next_id]); next_id += 1
        out.append(dict(e, msgs=msgs))
    return out, next_id


def run_sequences(ctx, seqs, model, tabn):
    """multi-step histories on the same MessageData objects: after every step the implementation's lists are compared
    with the SPEC applied to the lists as they were before that step"""
    impl = vf.run_parallel(HARNESS, [impl_json(q) for q in seqs], env=vf.IMPL_ENV)
    impl = [i.split(' ;; ') for i in impl]
    state = [(q['entries'], sum(len(e.get('msgs', [])) for e in q['entries'])) for q in seqs]
    alive = [True] * len(seqs)
    for k in range(max(len(q['steps']) for q in seqs)):
        idx = [i for i, q in enumerate(seqs) if alive[i] and k < len(q['steps'])]
        if not idx:
            break
        pseudo = [dict(seqs[i]['steps'][k], entries=state[i][0], scale=1) for i in idx]
        mdl = vf.run_parallel(model, [model_line('M', c, tabn, 'code') for c in pseudo])
        spec = vf.run_parallel(model, [model_line('S', c, tabn, 'attr') for c in pseudo])
        spec_c = vf.run_parallel(model, [model_line('S', c, tabn, 'code') for c in pseudo])
        for i, c, m, s_, sc in zip(idx, pseudo, mdl, spec, spec_c):
            q = seqs[i]
            ctx.count('history-steps')
            if k >= len(impl[i]):
                alive[i] = False; continue
            raw = impl[i][k]
            if raw.startswith('NUMPYEXC'):
                ctx.count('history:numpy-conversion-raised-not-judged'); alive[i] = False; continue
            obs, flags, _ = split_impl(raw)
            me, se, sce = expand(m, c), expand(s_, c), expand(sc, c)
            numpy_before = any(st.get('numpy') for st in q['steps'][:k + 1])
            if obs != se or flags:
                sig = sig_of(c, obs, flags, se, sce, tabn)
                if sig.get('kind') != 'p1-time-via-details-type-not-aligned':
                    sig['history'] = 'after-to_numpy' if numpy_before else 'after-earlier-alignment' if k > 0 else 'first-step'
                rec = {'case': public(q), 'failing_step': k, 'lists_before_step': c['entries'], 'impl': raw, 'model': me, 'spec': se}
                ctx.violation(sig, 'step %d of a history on the same MessageData objects (%s): time_align_data(mode=%s, message_types=%s) on %s: '
                              'implementation gives %s, the property requires %s'
                              % (k + 1, ' -> '.join(('to_numpy, ' if st.get('numpy') else '') + st['mode'] + str(st['mt']) for st in q['steps'][:k + 1]),
                                 c['mode'], c['mt'], [(entry_key(e), [t for t, _ in e.get('msgs', [])]) for e in c['entries']], obs + ' ' + ' '.join(flags), se), rec)
                alive[i] = False
                continue
            if obs != me:
                ctx.broken_correspondence('time-alignment model and implementation differ inside a history: impl %s model %s' % (obs, me),
                                          {'case': public(q), 'step': k})
            state[i] = next_state(se, c['entries'], state[i][1])


def evaluate(cases, model, tabn):
    impl = vf.run_parallel(HARNESS, [impl_json(c) for c in cases], env=vf.IMPL_ENV)
    mdl = vf.run_parallel(model, [model_line('M', c, tabn, 'code') for c in cases])
    spec = vf.run_parallel(model, [model_line('S', c, tabn, 'attr') for c in cases])
    spec_c = vf.run_parallel(model, [model_line('S', c, tabn, 'code') for c in cases])
    return impl, mdl, spec, spec_c


def shrink(case, sig, model, tabn):
    """greedy: drop entries / messages / message_types members while the same signature persists"""
    cur = case
    for _ in range(40):
        cands = []
        for i, e in enumerate(cur['entries']):
            if len(cur['entries']) > 1:
                c = dict(cur, entries=cur['entries'][:i] + cur['entries'][i + 1:])
                if c['mt'] is not None:
                    c['mt'] = [n for n in c['mt']]
                cands.append(c)
            for j in range(len(e.get('msgs', []))):
                e2 = dict(e, msgs=e['msgs'][:j] + e['msgs'][j + 1:])
                cands.append(dict(cur, entries=cur['entries'][:i] + [e2] + cur['entries'][i + 1:]))
        if cur['mt']:
            for j in range(len(cur['mt'])):
                cands.append(dict(cur, mt=cur['mt'][:j] + cur['mt'][j + 1:]))
        if cur.get('scale', 1) != 1:
            cands.append(dict(cur, scale=1))
        if not cands:
            break
        impl, mdl, spec, spec_c = evaluate(cands, model, tabn)
        nxt = None
        for c, i, s, sc in zip(cands, impl, spec, spec_c):
            obs, flags, _ = split_impl(i)
            se = expand(s, c)
            if (obs != se or flags) and full_sig(c, obs, flags, se, expand(sc, c), tabn) == sig:
                nxt = c
                break
        if nxt is None:
            break
        cur = nxt
    return cur


def full_sig(case, obs, flags, spec_e, spec_c_e, tabn):
    sig = sig_of(case, obs, flags, spec_e, spec_c_e, tabn)
    if case.get('via') == 'read' and sig.get('kind') != 'p1-time-via-details-type-not-aligned':
        sig['via'] = 'read'
    return sig


def sig_of(case, obs, flags, spec_e, spec_c_e, tabn):
    if obs == spec_e and flags:
        return {'mode': case['mode'], 'kind': 'side-effect:' + '+'.join(flags)}
    return classify(case, obs, spec_e, spec_c_e, tabn)


def run(ctx):
    try:
        consts = gen_c15.generate()
        ctx.notes.append('generated constants: %r' % consts)
        ctx.obligation('translator gen_c15 understood the source', True, 'translator')
    except Exception as e:
        # a translator failure is a failed obligation; the search for a failing input still runs
        ctx.obligation('translator gen_c15 understood the source', False, 'translator', repr(e)[:400])
        ctx.broken_proof('translators/gen_c15.py failed: %r' % (e,))
    if not ctx.coq() and not getattr(ctx, 'pending_broken', None):
        ctx.broken_proof()
    model = vf.build_extracted('c15', 'C15', 'c15_driver.ml')
    tab = class_table()
    G = Cases(ctx, tab)
    tabn = G.by_name
    r = ctx.rng
    ctx.notes.append('classes with instance attribute p1_time: %d; p1_time only through details/__getattr__: %d (%s); without: %d; '
                     'message types without payload class: %d'
                     % (len(G.timed), len(G.via_details), ','.join(G.via_details), len(G.timeless), len(G.classless)))

    # ---- corpus ------------------------------------------------------------------------------------
    cdir = os.path.join(vf.VERIF, 'corpus', 'C15')
    if os.path.isdir(cdir):
        for f in sorted(os.listdir(cdir)):
            if f.endswith('.json') and not f.endswith('.seq.json'):
                c = json.load(open(os.path.join(cdir, f)))
                c = c.get('case', c)
                if all(entry_key(e) in tabn for e in c['entries']):
                    G.cases.append(dict(c, origin='corpus', tmpdir=ctx.tmp))

    # ---- bounded-exhaustive ------------------------------------------------------------------------
    T = G.timed
    pairs = [tuple(r.sample(T, 2)) for _ in range(12)]
    G.exhaustive(2, [0, 1, 2, 3, 4], pairs)                                       # 32^2 x 2 modes x 5 selections
    triples = [tuple(r.sample(T, 3)) for _ in range(12)]
    G.exhaustive(3, [0, 1, 2], triples)                                           # 8^3 x 2 x 9
    # types without P1 time / with P1 time only through `details` / not selected, in every position
    mixed = []
    for other in ([G.timeless[0], G.timeless[-1]] + G.via_details[:2]):
        a, b = r.sample(T, 2)
        mixed += [(a, other), (other, a), (a, other, b)]
    for names in mixed:
        G.exhaustive(len(names), [0, 1, 2] if len(names) == 2 else [0, 1], [names])
    if ctx.thorough:
        quads = [tuple(r.sample(T, 4)) for _ in range(16)]
        subsets = [[g for i, g in enumerate(range(5)) if (b >> i) & 1] for b in range(32)]
        for _ in range(60000):
            names = r.choice(quads)
            combo = [r.choice(subsets) for _ in range(4)]
            if r.random() < 0.5:     # duplicates / disorder on the grid
                combo = [r.sample(c + [r.choice(range(5)) for _ in range(r.randint(0, 2))], k=len(c)) if c else c for c in combo]
            mt = r.choice([None, None] + [list(s) for k in range(5) for s in itertools.combinations(names, k)])
            G.add(r.choice(MODES), mt, [G.entry(n, m) for n, m in zip(names, G.ids(combo))], origin='sampled4')
        G.exhaustive(3, [0, 1, 2, 3], triples[:4], mts=lambda names: [None, list(names[:2])])
    # ---- 4 types quick sample, mode NONE, classless types, random larger sets ------------------------
    for _ in range(1500):
        names = tuple(r.sample(T, 4))
        combo = [[g for g in range(5) if r.random() < 0.5] for _ in range(4)]
        mt = r.choice([None, list(names), list(names[:3]), list(names[1:]), [names[0], names[3]]])
        G.add(r.choice(MODES), mt, [G.entry(n, m) for n, m in zip(names, G.ids(combo))], origin='sampled4')
    for mode in ['N', 'D', 'I']:
        a, b = r.sample(T, 2)
        G.add(mode, None, [G.entry(a, G.ids([[1, 2]])[0]), G.entry(b, G.ids([[2, 3]])[0])], origin='fixed')
        G.add(mode, None, [G.entry(a, G.ids([[1, 2]])[0])], origin='fixed')
        G.add(mode, None, [], origin='fixed')
        for tname in G.classless[:2]:
            G.add(mode, None, [G.entry(a, G.ids([[1, 2]])[0]), {'cls': None, 'type': tname, 'msgs': []}], origin='fixed')
            G.add(mode, [a], [{'cls': None, 'type': tname, 'msgs': []}, G.entry(a, G.ids([[1, 2]])[0])], origin='fixed')
    for _ in range(40000 if ctx.thorough else 5000):
        c = G.random_case(12, 9)
        G.cases.append(c)
    for _ in range(4000 if ctx.thorough else 400):
        c = G.random_case(120, 60)
        G.cases.append(c)

    # ---- checklist shapes -----------------------------------------------------------------------------------
    # empty selection in every container form aligns nothing; an aligned type without messages in every position
    for mode in MODES:
        for cont in ('list', 'tuple', 'set'):
            names = r.sample(T, 3)
            G.cases.append(dict(mode=mode, mt=[], mt_as='type', mt_container=cont, scale=1, origin='checklist',
                                entries=[G.entry(n, m) for n, m in zip(names, G.ids([[1, 2], [2, 3], [3]]))]))
        for nt in (2, 3, 4):
            for pos in range(nt):
                names = r.sample(T, nt)
                times = [[] if k == pos else sorted(r.sample(range(8), r.randint(1, 5))) for k in range(nt)]
                for mt in (None, list(names)):
                    G.cases.append(dict(mode=mode, mt=mt, mt_as=r.choice(['type', 'class']), mt_container='list', scale=r.choice([1, 10]),
                                        origin='checklist', entries=[G.entry(n, m) for n, m in zip(names, G.ids(times))]))
    # every type misses >= 2 epochs of a union of 8..12 (the ORDER of the result matters), fractional steps 0.1 / 0.3 / 1e-3
    # (inserted defaults must carry exactly the other types' stamps), messages given in disorder
    for _ in range(2000 if ctx.thorough else 300):
        nt = r.choice([2, 3, 4])
        names = r.sample(T, nt)
        size = r.randint(8, 12)
        step = r.choice([1, 3, 7])
        union = [step * k + r.choice([0, 0, 1]) * 0 for k in range(1, size + 1)]
        times = []
        for k in range(nt):
            keep = [t for t in union if r.random() < 0.6]
            while len(union) - len(set(keep)) < 2 and keep:
                keep.pop(r.randrange(len(keep)))
            if r.random() < 0.4:
                r.shuffle(keep)
            times.append(keep)
        G.cases.append(dict(mode=r.choice(MODES), mt=r.choice([None, None, list(names), list(names[:-1])]), mt_as=r.choice(['type', 'class', 'mixed']),
                            mt_container=r.choice(['list', 'tuple', 'set']), scale=r.choice([10, 10, 1000, 3, 1]),
                            mode_form=r.choice(['member', 'int', 'np']), call=r.choice(['class', 'instance', 'keyword']), origin='checklist',
                            entries=[G.entry(n, m) for n, m in zip(names, G.ids(times))]))
    # large unions (>= 64 epochs)
    for _ in range(200 if ctx.thorough else 24):
        nt = r.choice([2, 3, 4])
        names = r.sample(T, nt)
        times = [r.sample(range(400), r.randint(64, 160)) for _ in range(nt)]
        times = [t if r.random() < 0.5 else sorted(t) for t in times]
        G.cases.append(dict(mode=r.choice(MODES), mt=r.choice([None, list(names)]), mt_as='type', mt_container='list', scale=r.choice([1, 10, 1000]),
                            origin='checklist-large', entries=[G.entry(n, m) for n, m in zip(names, G.ids(times))]))

    # ---- histories on the same MessageData objects (to_numpy before/between, repeated alignments) ---------
    seqs = []
    sdir = os.path.join(vf.VERIF, 'corpus', 'C15')
    if os.path.isdir(sdir):
        for f in sorted(os.listdir(sdir)):
            if f.endswith('.seq.json'):
                q = json.load(open(os.path.join(sdir, f)))
                q = q.get('case', q)
                if all(entry_key(e) in tabn for e in q['entries']):
                    seqs.append(q)
    for _ in range(20000 if ctx.thorough else 3000):
        nt = r.choice([2, 3, 3, 4])
        names = r.sample(T, nt)
        if r.random() < 0.2:
            names.append(r.choice(G.timeless))
        times = [sorted(set(r.randint(0, 5) for _ in range(r.randint(0, 5)))) for _ in names]
        if r.random() < 0.15:
            times = [[r.randint(0, 5) for _ in range(r.randint(0, 5))] for _ in names]
        steps = []
        for k in range(r.choice([2, 3, 3, 4])):
            mt = None if r.random() < 0.25 else [n for n in names if r.random() < 0.6]
            steps.append({'mode': r.choice(['D', 'I', 'D', 'I', 'N']), 'mt': mt, 'mt_as': r.choice(['type', 'class', 'mixed']),
                          'mt_container': r.choice(['list', 'tuple', 'set']), 'numpy': r.random() < (0.5 if k == 0 else 0.2)})
        seqs.append({'scale': 1, 'entries': [G.entry(n, m) for n, m in zip(names, G.ids(times))], 'steps': steps})
    ctx.log('%d histories' % len(seqs))
    run_sequences(ctx, seqs, model, tabn)
    for q in seqs:
        ctx.case(('seq', [(entry_key(e), e['msgs']) for e in q['entries']], [(s['mode'], s['mt'], s['numpy']) for s in q['steps']]))
        ctx.count('origin:history')

    # ---- the same property through DataLoader.read(time_align=..., aligned_message_types=...) ----------------
    for _ in range(3000 if ctx.thorough else 500):
        nt = r.choice([2, 3, 3, 4])
        names = r.sample(T, nt)
        if r.random() < 0.3:
            names.append(r.choice(G.timeless))
        times = [sorted(set(r.randint(0, 6) for _ in range(r.randint(0, 6)))) for _ in names]
        mt = None if r.random() < 0.2 else [n for n in names if r.random() < 0.65] + ([r.choice(T)] if r.random() < 0.15 else [])
        G.cases.append({'via': 'read', 'tmpdir': ctx.tmp, 'read_as': r.choice(['type', 'class']), 'mode': r.choice(MODES), 'mt': mt,
                        'mt_as': r.choice(['type', 'class', 'mixed']), 'mt_container': r.choice(['list', 'tuple', 'set']), 'scale': 1,
                        'entries': [G.entry(n, m) for n, m in zip(names, G.ids(times))], 'origin': 'read'})

    # multi-call histories on ONE loader with caching on: read(X); read(Y, Z, time_align=..., aligned=None|subset); read(X) again
    for _ in range(3000 if ctx.thorough else 500):
        nt = r.choice([2, 2, 3])
        nx = r.choice([1, 1, 2])
        names = r.sample(T, nt + nx)
        req_names, extra_names = names[:nt], names[nt:]
        if r.random() < 0.2:
            extra_names.append(r.choice(G.timeless))
        times = [sorted(set(r.randint(0, 6) for _ in range(r.randint(1, 6)))) for _ in req_names + extra_names]
        msgs = G.ids(times)
        mt = None if r.random() < 0.6 else [n for n in req_names if r.random() < 0.65]
        G.cases.append({'via': 'read', 'tmpdir': ctx.tmp, 'read_as': r.choice(['type', 'class']), 'mode': r.choice(MODES), 'mt': mt,
                        'mt_as': r.choice(['type', 'class', 'mixed']), 'mt_container': r.choice(['list', 'tuple', 'set']), 'scale': 1,
                        'entries': [G.entry(n, m) for n, m in zip(req_names, msgs[:nt])],
                        'extra_entries': [G.entry(n, m) for n, m in zip(extra_names, msgs[nt:])],
                        'pre': [i for i in range(len(extra_names)) if i == 0 or r.random() < 0.5],
                        'pre_requested': [0] if r.random() < 0.15 else [], 'origin': 'read-history'})

    cases = G.cases
    ctx.log('%d cases' % len(cases))
    impl, mdl, spec, spec_c = evaluate(cases, model, tabn)
    ctx.log('evaluated')

    nviol = {}
    advisory_lists = 0
    for c, i, m, s, sc in zip(cases, impl, mdl, spec, spec_c):
        if i.startswith('SKIP:'):
            ctx.count('read-case-skipped:' + i[5:45]); continue
        obs, flags, adv = split_impl(i)
        me, se, sce = expand(m, c), expand(s, c), expand(sc, c)
        naligned = sum(1 for e in c['entries'] if tabn[entry_key(e)]['code'] and (c['mt'] is None or entry_key(e) in c['mt']))
        ctx.case((c['mode'], c['mt'], [(entry_key(e), e.get('msgs')) for e in c['entries']], c['scale']))
        ctx.count('mode:' + c['mode']); ctx.count('aligned-types:%d' % naligned); ctx.count('origin:' + c['origin'])
        ctx.count('entries:%d' % len(c['entries']))
        if any(len(set(t for t, _ in e.get('msgs', []))) < len(e.get('msgs', [])) for e in c['entries']):
            ctx.count('with-repeated-time-in-a-type')
        if ',F' in se or ':F' in se:
            ctx.count('result-has-inserted-default')
        rec = {'case': public(c), 'impl': i, 'model': me, 'spec': se}
        if obs != se or flags:
            sig = full_sig(c, obs, flags, se, sce, tabn)
            key = json.dumps(sig, sort_keys=True)
            nviol[key] = nviol.get(key, 0) + 1
            if nviol[key] == 1:
                small = shrink(c, sig, model, tabn)
                ii, mm, ss, _ = evaluate([small], model, tabn)
                rec = {'case': public(small), 'impl': ii[0], 'model': expand(mm[0], small), 'spec': expand(ss[0], small)}
                ctx.violation(sig, '%s(mode=%s, message_types=%s) on %s: implementation gives %s, the property requires %s'
                              % ('DataLoader.read(time_align, aligned_message_types) [types given as %s]' % small.get('mt_as') if small.get('via') == 'read' else 'time_align_data', small['mode'], small['mt'], [(entry_key(e), [t for t, _ in e.get('msgs', [])]) for e in small['entries']],
                                 split_impl(ii[0])[0] + (' ' + ' '.join(split_impl(ii[0])[1]) if split_impl(ii[0])[1] else ''), rec['spec']), rec)
            else:
                ctx.violation(sig, 'see first', rec)
        elif obs != me:
            ctx.broken_correspondence('time-alignment model and implementation differ: impl %s model %s' % (obs, me), rec)
        # advisory: list object identity of untouched entries
        if adv.startswith('lists=') and m.startswith('OK'):
            for bit, p in zip(adv[6:], m.split(' ')[1:]):
                if p == 'U' and bit != '1':
                    advisory_lists += 1
    for k, n in nviol.items():
        ctx.count('disagreement:' + json.loads(k)['kind'], n)
    if advisory_lists:
        ctx.notes.append('advisory: %d untouched entries had their list object replaced (contents identical)' % advisory_lists)
    for c, i in list(zip(cases, impl))[::max(1, len(cases) // 6)][:6]:
        ctx.sample({'mode': c['mode'], 'mt': c['mt'], 'entries': [(entry_key(e), [t for t, _ in e.get('msgs', [])]) for e in c['entries']], 'impl': i})

    # ---- NaN stamps: outside the statement; implementation behaviour recorded, not judged -----------
    a, b = T[0], T[1]
    nan_cases = [dict(mode=mo, mt=None, mt_as='type', mt_container='list', scale=1,
                      entries=[{'cls': a, 'msgs': [['nan', 0], [2, 1], ['nan', 2]]}, {'cls': b, 'msgs': [[2, 3], ['nan', 4], [3, 5]]}]) for mo in MODES]
    rc, out, err = vf.run_lines(HARNESS, [impl_json(c) for c in nan_cases], env=vf.IMPL_ENV)
    ctx.coverage['nan_stamps_not_judged'] = [{'mode': c['mode'], 'times': [[t for t, _ in e['msgs']] for e in c['entries']], 'impl': o}
                                             for c, o in zip(nan_cases, out)]

    ctx.coverage['rule'] = ('exhaustive: every assignment of subsets of a 5-point grid to 2 types and of a 3-point grid to 3 types x {DROP, INSERT} x '
                            '{message_types None or any subset of the types}, classes rotated over all %d classes with an instance p1_time; the same with a type '
                            'lacking P1 time / having it only through `details` in each position; 4 types sampled (%s); mode NONE, empty dict, single type, '
                            'message types without payload class; random dicts of 2-4 types with up to 12 and up to 120 messages, unsorted and repeated stamps, '
                            'dyadic non-integer stamps (scale 4, 8), message_types given as types or classes in list/tuple/set, including types not in the dict. '
                            'Also: histories of 2-4 steps on the same MessageData objects (to_numpy before/between steps, changing mode and selection), judged after every step; '
                            'and the property observed through DataLoader.read(time_align, aligned_message_types) on generated log files, selection given as types, classes or mixed; empty selections in list/tuple/set; a type without messages in every position; every type missing >= 2 epochs of a union of 8..12 incl. disorder; '
                            'fractional epochs (steps 0.1, 0.3, 1e-3: times are printed as grid indices only when bit-for-bit equal to a case timestamp); unions of >= 64 epochs; '
                            'mode as member / int / numpy integer; call on the class, on an instance, by keyword; the message_types argument must not be modified; on a fresh loader and inside multi-call histories on one caching loader '
                            '(read(X); read(Y, Z, time_align, aligned None|subset); read(X) again: aligned result = SPEC on the requested types only, earlier results untouched, re-read = fresh read). '
                            'Identity is observed with `is`, content by a structural snapshot of every attribute before and after, inserted messages against a '
                            'fresh cls(). A case is distinct by (mode, message_types, per-type stamp lists).'
                            % (len(T), '60000 in thorough, 1500 in quick' if ctx.thorough else '1500'))
    ctx.coverage['exhaustive'] = False
    ctx.trusted_base += ['Coq 8.16.1 kernel + vm_compute', 'extraction (ExtrOcamlBasic only) and ocaml/conv.ml + c15_driver.ml',
                         'numpy modelled, not verified: np.unique = sorted without repeats, np.intersect1d = sorted common values, return_indices = index of the '
                         'first occurrence, np.hstack = append, fancy assignment a[idx] = v element-wise with bounds check',
                         'hand transcription of time_align_data control flow (held by the differential run)',
                         'a dict has distinct keys (the second loop is modelled positionally)',
                         'translators/gen_c15.py (ast extraction of TimeAlignmentMode members, default mode, numpy calls)',
                         'harness/py/c15_impl.py (identity via `is`, structural content snapshot)']
    ctx.assumptions += ['P1 times are finite (no NaN) and compared as real numbers: integers in the model, dyadic doubles on the implementation; '
                        'NaN stamps are outside the statement (implementation behaviour recorded under coverage.nan_stamps_not_judged)',
                        'has-P1-time in the SPEC means the default instance answers `.p1_time`; the code tests the instance __dict__']
    ctx.notes.append('not part of the property and not judged: time_align_data leaves MessageData.num_messages, message_bytes and message_index as they were')


def replay(ctx, rec):
    case = rec.get('case', rec)
    case = case.get('case', case)
    if 'entries' not in case:
        print(json.dumps(rec, indent=1)[:3000])
        return 0
    gen_c15.generate()
    model = vf.build_extracted('c15', 'C15', 'c15_driver.ml')
    tabn = {entry_key(v): v for v in class_table().values()}
    case.setdefault('mt_as', 'type'); case.setdefault('mt_container', 'list'); case.setdefault('scale', 1)
    i, m, s, sc = evaluate([case], model, tabn)
    print('CASE ', json.dumps(case))
    print('IMPL ', i[0])
    print('MODEL', expand(m[0], case))
    print('SPEC ', expand(s[0], case))
    obs, flags, _ = split_impl(i[0])
    return 0 if (obs == expand(s[0], case) and not flags) else 1
