"""C07 — C++ framer dispatches exactly the valid messages, for any chunking and capacity."""
import json, os, subprocess, sys
import vf
from translators import gen_fe, gen_c07
sys.path.insert(0, os.path.join(vf.VERIF, 'harness', 'py'))
import c14_common as cm

LEVEL = 'proof'
PID = 'C07'
R = os.path.join(vf.REPO, 'src/point_one/fusion_engine')
SRC = [os.path.join(R, 'parsers/fusion_engine_framer.cc'), os.path.join(R, 'common/logging.cc'), os.path.join(R, 'messages/crc.cc')]
HARNESS = os.path.join(vf.VERIF, 'harness/cpp/c07_framer_h.cc')
ASAN_ENV = dict(os.environ, ASAN_OPTIONS='halt_on_error=0:suppress_equal_pcs=0:detect_leaks=0:allocator_may_return_null=1',
                UBSAN_OPTIONS='print_stacktrace=0')
MIN_CAP = 24
KINDS = ['valid-known', 'valid-known', 'valid-unknown', 'valid-unknown', 'valid-empty', 'known-type-random-payload', 'corrupt-payload', 'corrupt-crc',
         'corrupt-header', 'truncated', 'false-sync-implausible', 'false-sync-plausible', 'nested', 'dot-run', 'dot1-fragment', 'sync-run-then-1',
         'reserved-nonzero', 'psize-overflow', 'psize-over-capacity', 'junk', 'rtcm-frame', 'swallow-many', 'junk-then-sync', 'valid-large']


def rb(r, n):
    return bytes(r.getrandbits(8) for _ in range(n))


def gen_token(r, pool, kinds=None):
    k = r.choice(kinds or KINDS)
    if k == 'valid-known':
        return k, bytes.fromhex(r.choice(pool))
    if k == 'valid-unknown':
        n = r.choice([r.randint(0, 8), r.randint(0, 60), r.randint(0, 400)])
        p = bytearray(rb(r, n))
        for _ in range(r.choice([0, 0, 1, 3])):
            if n:
                p[r.randrange(n)] = r.choice(b'.1')
        return k, cm.fe_message(bytes(p), mtype=r.choice([60000, 65000, 1, 20000]), seq=r.randrange(1 << 32), source=r.choice([0, 1, 0xFFFFFFFF]))
    if k == 'valid-empty':
        return k, cm.fe_message(b'', mtype=r.choice([60001, 13000]), seq=r.randrange(1 << 32))
    if k == 'known-type-random-payload':
        return k, cm.fe_message(rb(r, r.randint(0, 30)), mtype=r.choice([10000, 10001, 12000, 13003]))
    if k in ('corrupt-payload', 'corrupt-crc', 'corrupt-header'):
        f = bytearray(cm.fe_message(rb(r, r.randint(1, 60)), mtype=60000, seq=r.randrange(1 << 16)))
        i = {'corrupt-payload': r.randrange(24, len(f)), 'corrupt-crc': r.randrange(4, 8), 'corrupt-header': r.randrange(8, 16)}[k]
        f[i] ^= 1 << r.randrange(8)
        return k, bytes(f)
    if k == 'truncated':
        f = cm.fe_message(rb(r, r.randint(0, 60)), mtype=60000)
        return k, f[:r.randrange(1, len(f))]
    if k == 'false-sync-implausible':
        return k, b'.1' + rb(r, r.randint(0, 40))
    if k == 'false-sync-plausible':   # zero reserved bytes, small length, wrong CRC: collected in full, then replayed by Resync()
        n = r.randint(0, 80)
        body = bytearray(rb(r, n))
        for _ in range(r.choice([0, 1, 2, 5])):
            if n:
                body[r.randrange(n)] = r.choice(b'..1')
        return k, cm.fe_message(bytes(body), mtype=r.randrange(65536), crc=r.getrandbits(32))
    if k == 'nested':
        inner = cm.fe_message(rb(r, r.randint(0, 20)), mtype=60002, seq=r.randrange(1000))
        pad = rb(r, r.randint(0, 5))
        dots = b'.' * r.choice([0, 0, 1, 2, 5])
        outer = cm.fe_message(pad + dots + inner + pad, mtype=60003, crc=None if r.random() < 0.4 else r.getrandbits(32))
        return k, outer
    if k == 'dot-run':
        return k, b'.' * r.choice([1, 2, 3, 5, 22, 23, 24, 25, 26, 40])
    if k == 'dot1-fragment':
        return k, r.choice([b'.1', b'..1', b'.1.1', b'.x', b'.1\x00\x00', b'1', b'...1\x00\x00' + rb(r, 3)])
    if k == 'sync-run-then-1':   # a long run of SYNC0 followed by SYNC1 inside a candidate that fails its CRC
        run = b'.' * r.choice([2, 5, 21, 22, 23, 24, 25, 30, 50]) + b'1' + rb(r, r.randint(0, 30))
        pre = rb(r, r.randint(0, 3))
        return k, cm.fe_message(pre + run, mtype=60004, crc=r.getrandbits(32) if r.random() < 0.8 else None)
    if k == 'reserved-nonzero':
        return k, cm.fe_message(rb(r, r.randint(0, 20)), mtype=60005, reserved=r.choice([1, 256, 0x312E, 0xFFFF]))
    if k == 'psize-overflow':
        return k, cm.fe_message(rb(r, r.randint(0, 20)), mtype=60006, psize=r.choice([0xFFFFFFE7 + r.randrange(25), 0xFFFFFFFF, 0xFFFFFFE8, 0xFFFFFFE7, 0x7FFFFFFF, 0x7FFFFFE8, 0x7FFFFFE7, 0x80000000]))
    if k == 'psize-over-capacity':
        return k, cm.fe_message(rb(r, r.randint(0, 40)), mtype=60007, psize=r.choice([1000, 1001, 1024, 4096, 100000]))
    if k == 'rtcm-frame':
        return k, cm.rtcm_frame(rb(r, r.randint(0, 30)))
    if k == 'swallow-many':   # one failing candidate whose payload holds several complete messages back to back: all recovered by one Resync()
        inner = b''.join(cm.fe_message(rb(r, r.choice([0, 0, 1, 5, 17])), mtype=60010 + j, seq=j) for j in range(r.randint(3, 6)))
        sep = r.choice([b'', b'', b'.', b'..', rb(r, 2)])
        return k, cm.fe_message(sep + inner + r.choice([b'', b'.', b'.1']), mtype=60009, crc=r.getrandbits(32))
    if k == 'junk-then-sync':  # >= 24 bytes without a sync pattern, then a stray preamble (meant to end a chunk)
        j = bytes(b for b in rb(r, r.randint(24, 40)) if b != 0x2E) or b'x' * 24
        return k, j + r.choice([b'.', b'.1', b'..', b'.1\x00'])
    if k == 'valid-large':
        return k, cm.fe_message(rb(r, r.choice([1000, 1024, 1100]) if r.random() < 0.93 else r.choice([4072, 4096, 5000])), mtype=60011, seq=r.randrange(1 << 16)) if r.random() < 0.3 else cm.fe_message(rb(r, r.randint(100, 300)), mtype=60011)
    return k, rb(r, r.randint(1, 30))


def gen_case(r, pool, thorough):
    nt = r.choice([1, 2, 3, 4, 6, 8]) if r.random() < 0.85 else r.randint(8, 25 if thorough else 14)
    toks = [gen_token(r, pool) for _ in range(nt)]
    kinds = [k for k, _ in toks]
    tokens = [t for _, t in toks]
    s = b''.join(tokens)
    sizes = [len(t) for t in tokens]
    capc = r.choice(['tiny', 'header', 'exact', 'exact', '64', '1024', 'huge'])
    cap = {'tiny': r.choice([0, 10, 23]), 'header': r.choice([24, 25, 26, 27, 28]), 'exact': max(0, r.choice(sizes) + r.choice([-1, 0, 0, 1, 2, 3])),
           '64': 64, '1024': 1024, 'huge': len(s) + r.randint(1, 64)}[capc]
    mode = r.choice(['U', 'U', 'M'])
    align = r.randrange(4) if mode == 'U' else 0
    ch = r.choice(['single', 'bytewise', 'split', 'random', 'random', 'token-ends'])
    if ch == 'single':
        cuts = []
    elif ch == 'bytewise':
        cuts = list(range(1, len(s)))
    elif ch == 'split':
        cuts = [r.randrange(0, len(s) + 1)]
    elif ch == 'token-ends':
        cuts = cm.token_cuts(tokens, r)
    else:
        cuts = cm.cuts_of(cm.chunk_random(s, r))
    nchunks = len(cuts) + 1
    resets = [r.randrange(nchunks) for _ in range(r.choice([0, 0, 0, 1, 2]))]
    setbufs = cm.gen_setbufs(r, nchunks, mode, cap, align, [24, 25, 27, 28, 64, 200, 1024, max(sizes), max(sizes) + 3], MIN_CAP) if r.random() < 0.25 else []
    opts = r.choice([0, 1, 2, 3]) | (4 if r.random() < 0.03 else 0)
    regs = []
    if r.random() < 0.3:      # which callbacks are registered: none / C-style / std::function / both, changed between chunks
        regs = [(0, r.choice([0, 1, 2, 3, 3, 3]))] + [(r.randrange(nchunks), r.randrange(4)) for _ in range(r.choice([0, 1, 2]))]
        regs = list(dict(regs).items())
    return {'mode': mode, 'cap': cap, 'align': align, 'tokens': tokens, 'kinds': kinds, 'cuts': cuts, 'resets': resets,
            'setbufs': setbufs, 'chunking': ch, 'capclass': capc, 'opts': opts, 'regs': regs}


def systematic_cases(r, pool, thorough):
    out = []

    def mk(mode, cap, align, tokens, kinds, cuts=(), capclass='exact', **kw):
        d = {'mode': mode, 'cap': cap, 'align': align, 'tokens': list(tokens), 'kinds': list(kinds), 'cuts': list(cuts), 'resets': [], 'setbufs': [],
             'chunking': 'single' if not cuts else 'split', 'capclass': capclass}
        d.update(kw)
        return d
    # every small payload size at capacity size-1 / size / size+1 after alignment, all alignments
    for n in (range(0, 70) if thorough else list(range(0, 6)) + [7, 8, 31, 40, 41]):
        f = cm.fe_message(rb(r, n), mtype=60000 + n, seq=n)
        for al in range(4):
            for dc in (-1, 0, 1):
                out.append(mk('U', len(f) + dc + (4 - al) % 4, al, [b'.', f, f[:9]], ['dot-run', 'valid-unknown', 'truncated']))
    # capacity 24..28 at every alignment: a header-only message and a header arriving in one call
    z = cm.fe_message(b'', mtype=60100)
    for cap in range(20, 30):
        for al in range(4):
            out.append(mk('U', cap, al, [z, b'.1', z], ['valid-empty', 'dot1-fragment', 'valid-empty'], capclass='header'))
            out.append(mk('U', cap, al, [z, b'.1', z], ['valid-empty', 'dot1-fragment', 'valid-empty'], cuts=list(range(1, 50)), capclass='header', chunking='bytewise'))
    # all single splits of a stream with a failed candidate that contains a real message behind duplicate sync bytes
    inner = cm.fe_message(b'\x01\x02', mtype=60200, seq=5)
    outer = cm.fe_message(b'..' + inner, mtype=60201, crc=0xDEADBEEF)
    s = [b'..', outer, inner, b'.1\x00']
    tot = sum(len(x) for x in s)
    for k in range(tot + 1):
        out.append(mk('U', 64 + k % 4, k % 4, s, ['dot-run', 'nested', 'valid-unknown', 'dot1-fragment'], cuts=[k], capclass='64'))
    # runs of SYNC0 of every length 1..60 followed by SYNC1 inside a candidate that fails, then a valid message
    for n in (range(1, 61) if thorough else [1, 2, 21, 22, 23, 24, 25, 26, 40]):
        bog = cm.fe_message(b'.' * n + b'1' + rb(r, 3), mtype=60300, crc=1)
        out.append(mk('U', 256, 0, [bog, inner, inner], ['sync-run-then-1', 'valid-unknown', 'valid-unknown'], capclass='1024'))
        out.append(mk('M', 128, 0, [bog, inner, inner], ['sync-run-then-1', 'valid-unknown', 'valid-unknown'], cuts=[30, 31, 60], capclass='1024', chunking='random'))
    # clamp: the framer is told 2^31 + 5 / 2^33 bytes, the block is only as large as needed
    for claimed in (2 ** 31 + 5, 2 ** 33):
        out.append(mk('U', '%d/%d' % (claimed, tot + 8), 1, s, ['clamp'], cuts=[7], capclass='clamp', no_model=True))
    # a message LARGER than / exactly as large as the usable capacity, whole and split at every offset, followed by one that fits
    big = cm.fe_message(rb(r, 16), mtype=60400, seq=1)            # 40 bytes
    small = cm.fe_message(b'\x07', mtype=60401, seq=2)            # 25 bytes
    for al in (0, 1, 3):
        for dc in (-1, 0):
            cap = len(big) + dc + (4 - al) % 4
            for k in range(0, len(big) + len(small) + 1):
                out.append(mk('U', cap, al, [big, small], ['valid-unknown', 'valid-unknown'], cuts=[k] if k else [], capclass='exact'))
    # zero-payload message as the last bytes of a call and of the stream, every split
    for pre in (b'', small, rb(r, 5) + b'.'):
        st = [pre, z] if pre else [z]
        n = sum(len(x) for x in st)
        for k in range(0, n + 1):
            out.append(mk('M', 24, 0, st, ['junk', 'valid-empty'], cuts=[k] if 0 < k < n else [], capclass='header'))
            out.append(mk('U', 64, k % 4, st + [z], ['junk', 'valid-empty', 'valid-empty'], cuts=[k, n], capclass='64'))
    # >= 24 junk bytes, then a stray preamble as the last / second-to-last byte of a call, then a real message
    junk = bytes(b for b in rb(r, 40) if b != 0x2E)[:26].ljust(26, b'j')
    for stray in (b'.', b'.1', b'..', b'.1\x00\x00'):
        st = [junk, stray, inner]
        n0 = len(junk) + len(stray)
        for k in (n0 - 2, n0 - 1, n0, n0 + 1):
            for capx in (64, 28):
                out.append(mk('U', capx, 0, st, ['junk', 'dot1-fragment', 'valid-unknown'], cuts=[k], capclass='64'))
    # one failing candidate that swallows 4 complete messages: all must come out of ONE Resync pass, any split
    four = [cm.fe_message(rb(r, j), mtype=60500 + j, seq=j) for j in (0, 3, 0, 9)]
    sw = cm.fe_message(b''.join(four), mtype=60499, crc=7)
    for k in (range(0, len(sw) + 2) if thorough else range(0, len(sw) + 2, 5)):
        out.append(mk('U', 256, 2, [sw, small], ['swallow-many', 'valid-unknown'], cuts=[k] if k else [], capclass='1024'))
    # every payload_size that makes 24 + payload_size wrap around 2^32 (and the last ones that do not)
    for ps in range(0xFFFFFFE0, 0x100000000):
        out.append(mk('U', 64, 0, [cm.fe_message(b'', mtype=60600, psize=ps, crc=3), small], ['psize-overflow', 'valid-unknown'], capclass='64'))
    # every combination of registered callbacks on a stream of 4 messages (one recovered by Resync), three chunkings, and changed mid-stream
    for reg in range(4):
        for cuts in ([], [30, 31, 90], list(range(1, len(sw) + len(small)))):
            out.append(mk('U', 256, reg, [sw, small], ['swallow-many', 'valid-unknown'], cuts=cuts, capclass='1024', regs=[(0, reg)]))
        out.append(mk('M', 200, 0, [small, sw, small], ['valid-unknown', 'swallow-many', 'valid-unknown'], cuts=[25, 60, 100], capclass='1024', regs=[(0, reg), (1, 3 - reg), (3, reg)]))
    # large messages and capacities (> 64 KiB, 16384 / 16383): implementation against the SPEC (the list-based model is too slow there)
    for n, capx in ([(70000, 70100), (70000, 65536), (16384 - 24, 16384), (16384 - 24, 16383)] if thorough else [(70000, 70100), (16384 - 24, 16383)]):
        m = cm.fe_message(rb(r, n), mtype=60700, seq=n & 0xFFFF)
        out.append(mk('U', capx, 1, [b'.1', m, small], ['dot1-fragment', 'valid-huge', 'valid-unknown'], cuts=[1, 30000 % len(m), len(m) - 1], capclass='huge', no_model=True))
        out.append(mk('M', capx, 0, [m, small], ['valid-huge', 'valid-unknown'], capclass='huge', no_model=True))
    return out


def lines_of(case):
    """(implementation line, SPEC line); model_line(case) is the implementation line without harness-only options"""
    ops = cm.case_ops(case)
    return cm.make_line(case['mode'], case['cap'], case['align'], ops, opts=case.get('opts', 0)), cm.spec_line(case['mode'], case['cap'], case['align'], ops)


def model_line(case):
    return cm.make_line(case['mode'], case['cap'], case['align'], cm.case_ops(case), for_model=True)


def run_impl(exe, lines):
    try:
        return vf.run_parallel(exe, lines, env=ASAN_ENV)
    except RuntimeError:
        out = []
        for l in lines:
            rc, o, err = vf.run_lines(exe, [l], env=ASAN_ENV)
            out.append(o[0] if rc == 0 and len(o) == 1 else 'CRASH rc=%s %s' % (rc, err[-300:].replace('\n', ' / ')))
        return out


def build(ctx):
    model = vf.build_extracted('c07', 'C07', 'c07_driver.ml')
    impl = vf.build_cpp('c07_asan', [HARNESS] + SRC, extra_flags='-fsanitize-recover=address')
    return model, impl


def trigger_of(case):
    """structural class of the input, used to match findings"""
    bufs = [(case['mode'], case['cap'], case['align'])] + [tuple(v) for _, v in case.get('setbufs', [])]
    for m, cap, al in bufs:
        if m == 'U' and isinstance(cap, int) and cap >= MIN_CAP and cap - (4 - al) % 4 < MIN_CAP:
            return 'usable-capacity-below-header-after-alignment'
    if b'.' * 23 in b''.join(case['tokens']):
        return 'long-sync0-run-replayed-by-resync'
    return 'other'


def sig_of(case, cls):
    return {'framer': 'fusion-engine', 'class': cls, 'trigger': trigger_of(case), 'buffer': case['mode']}


def python_compare(ctx, cases, impl_out):
    """frames the same messages as the Python decoder configured with max_payload_len_bytes = usable capacity - 24"""
    sel = []
    for c, i in zip(cases, impl_out):
        if c.get('resets') or c.get('setbufs') or c.get('regs') or c.get('opts', 0) & 4 or c.get('no_model') or i.startswith('CRASH'):
            continue
        segs = cm.parse_out(i)
        adv = segs[0].get('adv', '').split(',')
        capb = int(adv[3]) if len(adv) > 3 else -1
        if capb < MIN_CAP:
            continue
        sel.append((c, segs, capb))
    lim = 8000 if ctx.thorough else 1500
    sel = sel[:lim]
    if not sel:
        return
    inp = []
    for c, segs, capb in sel:
        ops = cm.case_ops(c)
        inp.append(json.dumps({'max': capb - MIN_CAP, 'chunks': [o[1].hex() for o in ops if o[0] == 'D']}))
    k = vf.NCPU
    shards = [inp[j::k] for j in range(k)]
    procs = [subprocess.Popen([vf.PY, os.path.join(vf.VERIF, 'harness/py/c07_pydec.py')], stdin=subprocess.PIPE, stdout=subprocess.PIPE,
                              stderr=subprocess.DEVNULL, env=vf.IMPL_ENV, text=True) for _ in shards]
    outs = [None] * len(inp)
    for j, (p, sh) in enumerate(zip(procs, shards)):
        so, _ = p.communicate('\n'.join(sh) + ('\n' if sh else ''), timeout=1200)
        for t, l in enumerate(so.split('\n')[:len(sh)]):
            outs[j + t * k] = l
    pending = []
    for (c, segs, capb), o in zip(sel, outs):
        ctx.case(('py', cm.make_line(c['mode'], c['cap'], c['align'], cm.case_ops(c))[:200], len(c['tokens'])), nontrivial=True)
        ctx.count('python-decoder-comparison')
        if o is None or not o.strip():
            raise RuntimeError('python decoder runner produced no output')
        py = json.loads(o)
        cpp = [[h for _, h, _ in d['cbs']] for d in segs if d['kind'] == 'D']
        pyf = [[h for _, h in ch] if isinstance(ch, list) else ch for ch in py]
        # the same messages, in the same order (per-call grouping may differ: the Python decoder waits for 24 bytes)
        flat_c = [h for ch in cpp for h in ch]
        flat_p = [h for ch in pyf if isinstance(ch, list) for h in ch]
        if flat_c == flat_p and all(isinstance(ch, list) for ch in pyf):
            continue
        pending.append((c, capb, cpp, py, flat_c))
    if pending:
        # known Python-side finding (C04): a CRC-valid message of a known type whose payload does not unpack is dropped by
        # the Python decoder (and its bytes rescanned); such streams are not comparable
        rc, po, _ = vf.run_lines([vf.PY, os.path.join(vf.VERIF, 'harness/py/c07_pydec.py')],
                                 [json.dumps({'probe': fc}) for _, _, _, _, fc in pending], env=vf.IMPL_ENV)
        for (c, capb, cpp, py, flat_c), pl in zip(pending, po):
            if any(json.loads(pl)):
                ctx.count('python-dropped-unparseable-known-type (C04 known finding, Python side)')
                continue
            ctx.violation({'framer': 'fusion-engine', 'class': 'differs-from-python-decoder', 'trigger': trigger_of(c), 'buffer': c['mode']},
                          'C++ framer and Python decoder (max_payload_len_bytes=%d) frame different messages' % (capb - MIN_CAP),
                          {'line': cm.make_line(c['mode'], c['cap'], c['align'], cm.case_ops(c)), 'cpp': cpp, 'python': py})


def check_results(ctx, results, model, impl):
    adv_mismatch = 0
    for c, i, s, m, line in results:
        ctx.case((line,), nontrivial=True)
        for k in c.get('kinds', []):
            ctx.count('token:' + k)
        ctx.count('chunking:' + c.get('chunking', '?')); ctx.count('capacity:' + c.get('capclass', '?')); ctx.count('buffer:' + c['mode'])
        if i.startswith('CRASH'):
            ctx.violation(sig_of(c, 'crash'), 'harness process died: ' + i, {'line': line, 'impl': i})
            continue
        isegs, ssegs = cm.parse_out(i), cm.parse_out(s)
        ctx.count('options:%d' % c.get('opts', 0))
        if c.get('opts', 0) & 4:
            # the callback calls Reset() re-entrantly: behaviour is not specified by the property, memory safety is
            bad = [k for k, a in enumerate(isegs) if a.get('flag') in ('ASAN', 'INMOD')]
            if bad:
                ctx.violation(sig_of(c, 'sanitizer-report-with-reentrant-reset'), 'sanitizer report when the callback calls Reset()', {'line': line, 'impl': i})
            continue
        ncb = sum(len(x.get('cbs') or []) for x in ssegs)
        ctx.count('callback-registration-changes', len(c.get('regs', [])))
        ctx.count('messages-dispatched', ncb)
        if ncb == 0:
            ctx.count('case-without-messages')
        d = cm.classify(isegs, ssegs, with_count=False)
        if d is not None:
            def fails(cc):
                a, b = lines_of(cc)
                rc, o, _ = vf.run_lines(impl, [a], env=ASAN_ENV)
                rc2, o2, _ = vf.run_lines(model, [b])
                if rc != 0 or not o:
                    return True
                dd = cm.classify(cm.parse_out(o[0]), cm.parse_out(o2[0]), with_count=False)
                return dd is not None and dd[1] == d[1] and trigger_of(cc) == trigger_of(c)
            sc = cm.shrink(c, fails) if len(ctx.violations) < 3 else c
            a, b = lines_of(sc)
            o = vf.run_lines(impl, [a], env=ASAN_ENV)[1]; o2 = vf.run_lines(model, [b])[1]
            om = vf.run_lines(model, [model_line(sc)])[1] if not sc.get('no_model') else ['-']
            ol = vf.run_lines(model, ['LEGACY ' + model_line(sc)])[1] if not sc.get('no_model') else ['-']
            ctx.violation(sig_of(c, d[1]), 'FusionEngine framer vs left-to-right scan: %s at operation %d (capacity %s, %s buffer, alignment %d, input class %s)'
                          % (d[1], d[0], c['cap'], c['mode'], c['align'], trigger_of(c)),
                          {'line': a, 'spec_line': b, 'stream_hex': b''.join(sc['tokens']).hex(), 'impl': o[0] if o else None, 'spec': o2[0] if o2 else None,
                           'model': om[0] if om else None, 'legacy_model': ol[0] if ol else None})
            continue
        if m is None:
            continue
        msegs = cm.parse_out(m)
        bad = None
        for k, (a, b) in enumerate(zip(isegs, msegs)):
            if a['kind'] == 'D' and (cm.public(a, False) != cm.public(cm.blind(b, a), False) or b.get('flag') != 'ok'):
                bad = k; break
            if a.get('adv') != b.get('adv'):
                fa, fb = a.get('adv', '').split(','), b.get('adv', '').split(',')
                if any(x != y and x != '-1' for x, y in zip(fa, fb)):
                    adv_mismatch += 1
                if '-1' in fa and not getattr(ctx, '_absent_noted', False):
                    ctx._absent_noted = True
                    ctx.notes.append('advisory: some private members (state_/next_byte_index_/current_message_size_/capacity_bytes_/buffer_) no longer exist under these names; their comparison is skipped')
        if bad is not None or len(isegs) != len(msegs):
            ctx.broken_correspondence('FusionEngine framer model and implementation differ at operation %s' % bad, {'line': line, 'impl': i, 'model': m, 'spec': s})
    return adv_mismatch


def huge_cases(ctx, impl):
    """Messages around the 2^24-byte mark in a buffer larger than 16 MiB: the framer documents no limit other than its
    capacity (the SPEC's max payload is usable capacity - 24), so a CRC-valid message of any size that fits must be
    dispatched.  The messages are generated inside the harness (token G) and the callback reports length + CRC-32 of what it
    saw; the expected outcome is computed here (the list-based SPEC runner would need gigabytes).  Thorough: payloads
    2^24-24, 2^24-23, 2^24 in a managed and a user buffer; quick: the first size above the 2^24 mark."""
    import struct, zlib
    M = 1 << 24
    todo = [('M', M + 1024, 0, M - 23, 1, 3)]
    if ctx.thorough:
        todo = [(m, M + 1024, a, pl, pieces, reg) for (m, a) in (('M', 0), ('U', 1)) for pl, pieces in ((M - 24, 1), (M - 23, 3), (M, 2))
                for reg in ((3,) if m == 'M' else (1,))] + [('M', M + 1024, 0, M + 1001, 1, 2), ('M', M + 1024, 0, M + 1010, 1, 1)]
    for mode, cap, al, pl, pieces, reg in todo:
        usable = cap + 3 if mode == 'M' else cap - (4 - al) % 4
        line = '%s %d %d K%d G%d,5,%d G9,6,1' % (mode, cap, al, reg, pl, pieces)
        out = run_impl(impl, [line])[0]
        ctx.case(('huge', line)); ctx.count('huge-message-cases')

        def msg(n, fill):
            pat = bytes((31 * i + fill) & 255 for i in range(256))
            payload = (pat * (n // 256 + 1))[:n]
            tail = struct.pack('<BBHIII', 2, 0, 60800, fill, n, 0xFFFFFFFF) + payload
            return b'.1\x00\x00' + struct.pack('<I', zlib.crc32(tail) & 0xFFFFFFFF) + tail
        exp = []
        for n, fill in ((pl, 5), (9, 6)):
            m = msg(n, fill)
            fits = len(m) <= usable
            body = ('H%d-%08x' % (len(m), zlib.crc32(m) & 0xFFFFFFFF)) if len(m) > (1 << 20) else m.hex()
            exp.append((len(m) if fits else 0, [(0, body)] if fits else []))
        if out.startswith('CRASH'):
            ctx.violation({'framer': 'fusion-engine', 'class': 'crash', 'trigger': 'message-around-2^24-bytes', 'buffer': mode}, 'harness died: ' + out, {'line': line})
            continue
        segs = [x for x in cm.parse_out(out) if x['kind'] == 'D']
        got = [(x['ret'], [(n, h) for n, h, _ in (x['cbs'] or [])]) for x in segs]
        bad = any(x.get('flag') != 'ok' or any(pm for _, _, pm in (x['cbs'] or [])) for x in segs)
        if got != exp or bad:
            ctx.violation({'framer': 'fusion-engine', 'class': 'wrong-dispatch-of-huge-message', 'trigger': 'message-around-2^24-bytes', 'buffer': mode},
                          'a CRC-valid message with a %d-byte payload in a %d-byte %s buffer: the framer returns/dispatches %s, the scan with max payload = usable capacity - 24 gives %s'
                          % (pl, cap, 'managed' if mode == 'M' else 'user', [(r_, [b[:30] for _, b in c_]) for r_, c_ in got], [(r_, [b[:30] for _, b in c_]) for r_, c_ in exp]),
                          {'line': line, 'impl': out[:2000], 'expected': [(r_, [b[:64] for _, b in c_]) for r_, c_ in exp]})


def load_pool(ctx):
    rc, so, se = vf.sh([vf.PY, os.path.join(vf.VERIF, 'harness/py/c07_pool.py'), str(ctx.seed)], env=vf.IMPL_ENV, timeout=120)
    try:
        pool = json.loads(so.strip().split('\n')[-1])
    except Exception:
        pool = []
    if len(pool) < 5:
        ctx.notes.append('python encoder pool unavailable (%s); using own builder only' % se[-200:])
        pool = [cm.fe_message(bytes(40), mtype=10000).hex()]
    return pool


def translate(ctx, gens):
    """regenerate Generated/*.v by evaluating the working tree; a translator that cannot cope is a failed obligation and the
    run continues on the last generated constants, so that the failing-input search still happens"""
    for name, fn, fallback in gens:
        try:
            consts = fn()
            ctx.notes.append('%s: constants derived from the working tree: %r' % (name, consts))
            ctx.obligation('translator %s derived the constants from the working tree' % name, True, 'translator', repr(consts)[:600])
        except Exception as e:   # noqa
            ctx.obligation('translator %s derived the constants from the working tree' % name, False, 'translator', repr(e)[:600])
            ctx.pending_broken = {'kind': 'translator', 'what': '%s cannot derive the constants from the working tree: %r' % (name, e)}
            if fallback:
                fallback()


def run(ctx):
    translate(ctx, [('gen_fe', gen_fe.generate, None), ('gen_c07', gen_c07.generate, gen_c07.ensure_present)])
    if not ctx.coq():
        if not getattr(ctx, 'pending_broken', None):
            ctx.broken_proof()
    elif ctx.thorough and not ctx.coqchk():
        ctx.broken_proof('coqchk rejected the compiled development')
    ctx.log('coq done'); model, impl = build(ctx); ctx.log('runners built')
    r = ctx.rng
    pool = load_pool(ctx)
    cases = []
    cdir = os.path.join(vf.VERIF, 'corpus', PID)
    if os.path.isdir(cdir):
        for fn in sorted(os.listdir(cdir)):
            c = json.load(open(os.path.join(cdir, fn)))
            c['tokens'] = [bytes.fromhex(t) for t in c['tokens']]
            cases.append(c)
    cases += systematic_cases(r, pool, ctx.thorough)
    cases += [gen_case(r, pool, ctx.thorough) for _ in range(150000 if ctx.thorough else 15000)]
    il, sl = zip(*[lines_of(c) for c in cases])
    ctx.log('%d cases generated' % len(cases)); io = run_impl(impl, list(il)); ctx.log('impl done')
    so = vf.run_parallel(model, list(sl)); ctx.log('spec done')
    mres = iter(vf.run_parallel(model, [model_line(c) for c in cases if not c.get('no_model')]))
    results = [(c, i, s, None if c.get('no_model') else next(mres), l) for c, i, s, l in zip(cases, io, so, il)]
    ctx.log('model done'); adv = check_results(ctx, results, model, impl); ctx.log('compared')
    if adv:
        ctx.notes.append('advisory: private state differed from the model in %d operations (not an alarm)' % adv)
    python_compare(ctx, cases, io); ctx.log('python decoder compared')
    huge_cases(ctx, impl); ctx.log('2^24-byte messages done')
    # CRC agreement: extracted CRC model vs zlib
    import zlib
    ds = [rb(r, r.randint(0, 64)) for _ in range(200)]
    for d, o in zip(ds, vf.run_parallel(model, ['CRC ' + (d.hex() or '-') for d in ds])):
        ctx.case(('crc', d)); ctx.count('crc32-agreement')
        if int(o) != zlib.crc32(d) & 0xFFFFFFFF:
            ctx.broken_correspondence('CRC-32 model differs from zlib on %s' % d.hex(), {'data': d.hex()})
    for c, i, s, m, line in results[::max(1, len(results) // 5)][:5]:
        ctx.sample({'line': line[:300], 'impl': i[:300]})
    ctx.coverage['rule'] = ('histories = token streams (valid messages of several classes from the Python encoder, own-builder messages of unknown types, zero payload, '
                            'known type with random payload, corrupted payload/CRC/header, truncated, false syncs with implausible and plausible lengths, nested messages, '
                            "'.' runs (1..40), '.1' fragments, long SYNC0 runs followed by SYNC1 inside failing candidates, nonzero reserved bytes, payload sizes that "
                            'overflow uint32 or exceed the capacity, RTCM frames, junk) x chunkings (single, bytewise, single split, random incl. empty chunks) '
                            'x capacities (0/10/23, 24..28, message size -1/0/+1/+2/+3, 64, 1024, > stream, told 2^31+5 / 2^33) x user(4 alignments, buffer at the end of an '
                            'exact-size heap block)/managed buffers x Reset() and SetBuffer() at random chunk boundaries; systematic part: payload sizes x capacity size-1/size/size+1 x 4 '
                            'alignments, capacities 20..29 x 4 alignments, all single splits of a nested-candidate stream, SYNC0 runs of length %s; '
                            'a subset is also compared with the Python decoder. Added after the seeded-change audit: SetBuffer() between chunks on the same memory / smaller / larger / user<->managed / refused with parser state carried over (25 %% of histories, 1-3 calls), chunk boundaries at and +-1/+-2 around token ends, candidates swallowing 3-6 complete messages, >= 24 junk bytes then a stray preamble ending a call, messages larger than / equal to the capacity split at every offset, empty messages ending a call / the stream, every payload_size in 0xFFFFFFE0..0xFFFFFFFF (C07), messages and capacities > 64 KiB and 16384/16383 (implementation vs SPEC), WarnOnError on/off as a case dimension, every combination of registered callbacks (none / C-style / std::function / both; RTCM: none / A / replaced by B) set and changed between chunks — each registered callback must see each message once with identical arguments, with none registered the return values and counts are still judged, callbacks that call Reset() re-entrantly (memory safety only), caller chunks at 4 start alignments ending exactly at the end of an exact-size heap block and compared bit-for-bit after the call, framer buffers pre-filled with sync-byte sentinels, callback pointers required to lie inside a buffer handed to the framer with payload == header + 24. A case is distinct by its full input line.' % ('1..60' if ctx.thorough else '1,2,21..26,40'))
    ctx.coverage['exhaustive'] = False
    ctx.trusted_base += ['Coq 8.16.1 kernel + vm_compute', 'extraction (ExtrOcamlBasic only), ocaml/conv.ml + c07_driver.ml',
                         'translators/gen_fe.py, gen_c07.py (constants derived by compiling probes against the working tree and observing the framer: offsetof, CRC start, usable capacity table; harness/cpp/c07_probe.cc; the harness static_asserts the offsets)',
                         'hand transcription of OnByte/OnData/Resync/SetBuffer control flow (held by correspondence)',
                         'ASan/UBSan harness harness/cpp/c07_framer_h.cc (memory safety of the C++ itself is runtime evidence, the no_oob theorem is about the model)',
                         'harness/py/c14_common.py (own header+CRC builder using zlib.crc32), harness/py/c07_pydec.py, c07_pool.py']
    ctx.assumptions += ['operator new[] returns storage aligned to at least 4 bytes (managed buffers modelled at alignment 0)',
                        'size_t is 64 bits (total_dispatched_bytes cannot wrap)', 'little-endian host (the framer reads header fields through reinterpret_cast)',
                        'a managed framer constructed with capacity N has usable capacity N+3 (constructor allocates 3 extra bytes; operator new[] is already aligned)']


def replay(ctx, rec):
    case = rec.get('case', rec)
    model, impl = build(ctx)
    line = case['line']
    print('IMPL  ', vf.run_lines(impl, [line], env=ASAN_ENV)[1])
    ml = ' '.join(('BU' + t[2:]) if t.startswith('BS') else t for t in line.split() if not t.startswith('O'))
    if '/' not in line.split()[1]:
        print('MODEL ', vf.run_lines(model, [ml])[1])
        print('LEGACY', vf.run_lines(model, ['LEGACY ' + ml])[1])
    print('SPEC  ', vf.run_lines(model, [case.get('spec_line') or 'SPEC ' + ml])[1])
    return 0
