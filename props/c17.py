"""C17 — unknown enumeration values are preserved, flagged and history-independent.

IMPL  = the real classes of /repo (harness/py/c17_enum.py, one fresh interpreter per history),
MODEL = Models/DynEnumM.v extracted (ocaml/c17_driver.ml), SPEC = `spec` / `spec_roundtrip_items` of the same file
(functions of the class body and the operation alone).  Both runners speak one line protocol, so a history is
a list of lines fed to both."""
import itertools, json, os
from concurrent.futures import ThreadPoolExecutor
import vf
from translators import gen_c17

LEVEL = 'proof'
HARNESS = os.path.join(vf.VERIF, 'harness/py/c17_enum.py')
OPNAME = {'AB': 'adapter-declared-before', 'GA': 'getattr-name', 'HC': 'held-members-recheck', 'SW': 'switch-class', 'EM': 'mask-class-as-enum', 'SO': 'spec-only', 'C': 'call', 'P': 'call-numpy-int', 'A': 'adapter', 'N': 'call-name', 'G': 'getitem-name', 'I': 'getitem-int', 'F': 'from-string-ci',
          'L': 'iter', 'K': 'len', 'R': 'reversed', 'IT': 'iter-open-during-conversions', 'RIT': 'reversed-open-during-conversions', 'RT': 'mask-roundtrip', 'B': 'to-bitmask', 'V': 'to-values',
          'MK': 'make-mask', 'MR': 'real-mask', 'ST': 'private-state', 'E': 'enum', 'T': 'synthetic-enum'}


def hx(v):
    return format(v, 'x')


def tok_members(ms):
    return ','.join('%s:%s' % (n or '~', hx(v)) for n, v in ms) if ms else '-'


# ------------------------------------------------------------------------------------------------------------
# runners

def run_impl(lines, timeout=1500):
    rc, out, err = vf.run_lines([vf.PY, HARNESS], lines, env=vf.IMPL_ENV, timeout=timeout)
    if rc != 0 or len(out) != len(lines):
        raise RuntimeError('IMPL runner rc=%s, %d answers for %d lines: %s' % (rc, len(out), len(lines), err[-1500:]))
    return out


def run_model(exe, lines):
    rc, out, err = vf.run_lines(exe, lines, timeout=1500)
    if rc != 0 or len(out) != len(lines):
        raise RuntimeError('MODEL runner rc=%s, %d answers for %d lines: %s' % (rc, len(out), len(lines), err[-1500:]))
    return out


def run_jobs(exe, jobs):
    def one(job):
        return run_impl(job['lines'], job.get('timeout', 1500)), run_model(exe, job['lines'])
    with ThreadPoolExecutor(vf.NCPU) as ex:
        return list(ex.map(one, jobs))


# ------------------------------------------------------------------------------------------------------------
# history generators

def case_variants(rng, n):
    out = {n, n.lower(), n.upper()}
    if len(n) > 1:
        out.add(n[0].lower() + n[1:].upper())
        out.add(''.join(rng.choice((c.lower(), c.upper())) for c in n))
    return sorted(out)


UNKNOWN_NAMES = ['NOPE', 'nope', '~', 'x', 'U', '_', '_X', 'u_1', 'Z9']
HID = {'prefix': '_U', 'sep': '_'}          # set from the generated constants in run()


def hname(v):
    return '%s%s%d' % (HID['prefix'], HID['sep'], v)


def snapshot(rng, names, full):
    """public view probes that never change the class: list, len, reversed, lookups of names outside the hidden namespace"""
    lines = ['L', 'K', 'R']
    probe = []
    for n in names:
        vs = case_variants(rng, n) if full else [n, n.lower()]
        probe += vs
    probe += UNKNOWN_NAMES if full else rng.sample(UNKNOWN_NAMES, 2)
    probe = [p for p in dict.fromkeys(probe) if not p.upper().startswith(HID['prefix']) and not p.startswith(HID['prefix'])]
    for p in probe:
        lines.append('G %s' % p)
        lines.append('N %s 1' % p)
        if full or rng.random() < 0.3:
            lines.append('F %s' % p)
    for n in names:                      # lenient conversion of a name that resolves: allowed, changes nothing
        lines.append('N %s 0' % n)
        if full or rng.random() < 0.5:
            lines.append('GA %s' % n)    # attribute access: one more public path to the same member
    return lines


ARGKIND = {'h': 'held-member-object', 'f': 'member-of-another-enum', 'g': 'member-of-another-enum-shared-name', 'b': 'bool', 'u': 'numpy-int'}


def tagged(rng, v, seen_any):
    """the integer as one of the kinds of Python object a caller may hold: plain int, the member object an earlier
    conversion returned, a member of another enumeration with that value, a bool, a numpy integer"""
    r = rng.random()
    if r < 0.45:
        return hx(v)
    if r < 0.70 and seen_any:
        return 'h:' + hx(v)
    if r < 0.82:
        return 'f:' + hx(v)
    if r < 0.88 and v in (0, 1):
        return 'b:' + hx(v)
    return 'u:' + hx(v)


def value_history(rng, setup, names, values, order, full, hidden_probes):
    """setup line, baseline snapshot, strict pass, lenient first encounters in the given order interleaved with
    strict calls / lookups / list / len, final snapshot, strict pass after everything was seen, lenient again.
    Arguments are passed as plain ints and as the other integer-valued objects a caller may hold; some first
    encounters happen while an iteration over the class is open."""
    lines = [setup] + snapshot(rng, names, full)
    strict_sample = values if full else rng.sample(values, min(len(values), 24))
    for v in strict_sample:
        lines.append('%s %s 1' % (rng.choice('CCA'), hx(v)))
        if rng.random() < 0.3:
            lines.append('I %s' % tagged(rng, v, False))
    small = ['L', 'K', 'R'] + ['G %s' % n for n in names[:6]] + ['N %s 1' % n.lower() for n in names[:6]] + ['G NOPE', 'F nope']
    seen, seen_plain = [], []
    i = 0
    n_open = 0
    while i < len(order):
        v = order[i]
        i += 1
        if rng.random() < 0.04 or (n_open < 2 and i > min(3, len(order) - 1)):
            # first encounters while an iterator is open
            k = rng.randint(1, 3)
            group = [v] + order[i:i + k - 1]
            i += len(group) - 1
            lines.append('%s %s' % (rng.choice(('IT', 'RIT')) if n_open >= 2 else ('IT', 'RIT')[n_open], ','.join(hx(x) for x in group)))
            n_open += 1
            seen += group
            seen_plain += group
            continue
        r = rng.random()
        if r < 0.25:
            lines.append('C %s 1' % hx(v))
        kind = rng.choice('AABBPCCCCCCT')
        if kind == 'T':
            t = rng.choice(['f:', 'u:'] + (['b:'] if v in (0, 1) else []))
            lines.append('C %s%s 0' % (t, hx(v)))
            if t == 'u:':
                seen_plain.append(v)
        else:
            lines.append('%s %s 0' % ('AB' if kind == 'B' else kind, hx(v)))
            seen_plain.append(v)
        seen.append(v)
        r = rng.random()
        if r < 0.45:
            c = rng.choice('CCCAB')
            if c in 'AB':
                lines.append('%s %s 1' % ('A' if c == 'A' else 'AB', hx(v)))   # strict after seen: field declared now / before
            else:
                lines.append('C %s 1%s' % (tagged(rng, v, True), rng.choice(('', ' d'))))
        elif r < 0.6:
            lines.append('I %s' % tagged(rng, v, True))
        elif r < 0.7:
            w = rng.choice(seen)
            lines.append('C %s %d' % (tagged(rng, w, True), rng.randrange(2)))   # an earlier value again
        if rng.random() < 0.06:
            lines.append(rng.choice(small))
        if hidden_probes and seen_plain and rng.random() < 0.04:
            w = rng.choice(seen_plain)
            lines += ['G ' + hname(w), 'G ' + hname(w).lower(), 'N %s 1' % hname(w), 'F ' + hname(w).lower(), 'N %s 0' % hname(w)]
    lines += snapshot(rng, names, full)
    for v in values:
        lines.append('C %s 1' % (hx(v) if rng.random() < 0.7 else tagged(rng, v, True)))
    for v in (values if full else rng.sample(values, min(len(values), 64))):
        lines.append('C %s 0' % (hx(v) if rng.random() < 0.7 else tagged(rng, v, True)))
    lines += ['IT -', 'RIT -', 'L', 'K', 'R', 'HC', 'ST']
    return lines


def mask_enum_values(members):
    """for a mask class used as an enumeration: integers made only of known bits that are not defined members
    (0, pairs, all known bits) and integers with a stray bit"""
    bits = sorted({v for _, v in members if v > 0 and v & (v - 1) == 0})
    allb = 0
    for b in bits:
        allb |= b
    out = [0, allb, allb | (1 << 40), allb >> 1]
    out += [a | b for a, b in zip(bits, bits[1:])] + [bits[0] | bits[-1]] if len(bits) > 1 else []
    known = {v for _, v in members}
    return [v for v in dict.fromkeys(out) if v not in known]


def public_view(rng, members):
    """the full public view of a class: list, len, reversed, every defined value strictly and leniently, every defined
    name by [], (), attribute; members held from earlier"""
    lines = ['L', 'K', 'R']
    for n, v in members:
        lines += ['C %s 1' % hx(v), 'C %s 0' % tagged(rng, v, True), 'G %s' % n, 'GA %s' % n]
        if rng.random() < 0.3:
            lines += ['N %s 1' % n.lower(), 'AB %s 1' % hx(v)] if 0 <= v < 2 ** 63 else []
    lines.append('HC')
    return lines


def interleaved_history(rng, group):
    """several classes alive in one interpreter (state shared between classes must show): operate on one, then
    re-check the full public view of the others.  group: list of (setup line, switch key, members)"""
    lines = ['SO 0']
    for setup, key, members in group:
        lines += [setup] + public_view(rng, members)[:-1]
    allvals = sorted({v for _, _, ms in group for _, v in ms})
    for rnd in range(3):
        for setup, key, members in group:
            lines.append('SW ' + key)
            known = {v for _, v in members}
            # values this class does not define but another one of the group does, and values nobody defines
            cand = [v for v in allvals if v not in known] + [rng.randrange(0, 300) for _ in range(4)] + [-1 - rnd, 2 ** 33 + rnd]
            vs = [v for v in dict.fromkeys(rng.sample(cand, min(len(cand), 6))) if v not in known]
            for v in vs[:-2]:
                lines.append('%s %s 0' % (rng.choice(('C', 'C', 'A', 'AB')), hx(v)) if 0 <= v < 2 ** 63 and rng.random() < 0.4 else 'C %s 0' % tagged(rng, v, False))
                if rng.random() < 0.5:
                    lines.append('C %s 1' % tagged(rng, v, True))
            if len(vs) >= 2:
                lines.append('%s %s' % (rng.choice(('IT', 'RIT')), ','.join(hx(v) for v in vs[-2:])))
            others = [g for g in group if g[1] != key]
            for osetup, okey, omembers in (others if rnd == 2 else rng.sample(others, min(2, len(others)))):
                lines.append('SW ' + okey)
                lines += public_view(rng, omembers)
    return lines


def mask_class_history(rng):
    """the helper class the decorator just built (any offset / predicate / define_bits) as an enumeration in its own
    right: its defined members are recognised, everything else is preserved and flagged"""
    lines = ['EM', 'L', 'K', 'R']
    vals = list(range(0, 40)) + [63, 64, 128, 255, 256, 0xffffffff, 1 << 40, -1]
    rng.shuffle(vals)
    for v in vals[:28]:
        lines += ['C %s 1' % hx(v), 'C %s 0' % tagged(rng, v, False), 'C %s 1' % tagged(rng, v, True)]
    lines += ['G ALL', 'G all', 'G NOPE', 'G A', 'N a 1', 'L', 'K', 'R', 'IT 29,2a', 'HC', 'ST']
    return lines


def foreign_history(rng, setup, values):
    """members of other enumerations that share one *name*: the hidden member is named after the argument's text"""
    lines = [setup, 'L', 'K']
    vs = rng.sample(values, min(len(values), 6))
    for v in vs:
        lines += ['C g:%s 0' % hx(v), 'C %s 1' % hx(v), 'C g:%s 1' % hx(v), 'C %s 0' % hx(v), 'L', 'K', 'R']
    return lines + ['ST']


EXTRA_VALUES = [-1, -2, -3, -128, -2 ** 31, -2 ** 63, 256, 257, 65535, 65536, 2 ** 31, 2 ** 32 - 1, 2 ** 32, 2 ** 63, 2 ** 64, 10 ** 30]


def synthetic_tables(rng, n):
    fixed = [
        [],
        [('A', 1), ('B', 2)],
        [('A', 1), ('B', 2), ('C', 2), ('d', 7)],                      # alias, lower-case name
        [('UNKNOWN', 0), ('Ab', 1), ('AB', 2), ('ab', 3)],             # names equal up to case
        [('NEG', -5), ('ZERO', 0), ('BIG', 2 ** 40), ('U', 3), ('_X', 4), ('u_1', 9)],
        [('A', 255), ('B', 254), ('C', 0), ('D', 254), ('E', 255)],    # aliases of both ends
    ]
    out = list(fixed)
    pool = ['A', 'B', 'C', 'D', 'E', 'F', 'UNKNOWN', 'ALL', 'x', 'Yy', 'U2', 'Q', 'W', 'G1', 'g1']
    for _ in range(n):
        k = rng.randint(1, 8)
        names = rng.sample(pool, k)
        out.append([(nm_, rng.choice([0, 1, 2, 3, 5, 8, 9, 63, 64, 100, 200, 255, -1, -7, 300])) for nm_ in names])
    return out


def lenient_name_history(rng, setup, names, values):
    """the one operation outside the property's histories: lenient conversion of an unknown *name*"""
    lines = [setup, 'L', 'K']
    pre = rng.choice([[], ['C -1 0'], ['C -1 0', 'C -2 0'], ['C 7 0']])
    lines += pre
    fresh = rng.sample(['Q', 'W', 'q', 'Zz', HID['prefix'] + 'x', hname(7), hname(9).lower(), 'NEWNAME'], 4)
    for f in fresh:
        lines += ['N %s 0' % f, 'L', 'K', 'R', 'G %s' % f, 'N %s 1' % f, 'F %s' % f.lower()]
        lines += ['C -1 1', 'C -1 0', 'C -2 1', 'C -2 0', 'C 7 0', 'C 7 1', 'C 9 0']
    lines += snapshot(rng, names, False) + ['ST']
    return lines


def subsets(xs):
    for r in range(len(xs) + 1):
        for c in itertools.combinations(xs, r):
            yield list(c)


def mask_lines(rng, members, off, included, thorough, names_ok):
    """all subsets of the members the helper knows (as member objects, plain ints, names), plus values it does not
    know, plus to_values over masks"""
    lines = []
    inc = [(n, v) for n, v in members if v in included]
    inc = list({v: (n, v) for n, v in reversed(inc)}.values())[::-1]
    cap = 10 if thorough else 8
    base = inc[:cap]
    for S in subsets(base):
        if not S:
            lines.append('RT -')
            continue
        kind = rng.randrange(4)
        toks = []
        for n, v in S:
            k = 'v' if kind == 0 else 'i' if kind == 1 else ('n' if names_ok else 'v') if kind == 2 else rng.choice('vin' if names_ok else 'vi')
            toks.append(k + (rng.choice((n, n.lower())) if k == 'n' else hx(v)))
        if rng.random() < 0.3:
            rng.shuffle(toks)
        if rng.random() < 0.15:
            toks.append(rng.choice(toks))                                   # a repeated element
        if rng.random() < 0.1:
            toks.append('i' + hx(rng.choice([off + 40, off + 3, off + 300])))  # a value the enum may not define
        lines.append('RT ' + ','.join(toks))
        if rng.random() < 0.1:
            lines.append('B ' + ','.join(toks))
    for _ in range(40 if thorough else 12):
        lines.append('RT ' + ','.join('i' + hx(rng.choice([v for _, v in members] + [off - 1, off, off + 1, 0, 1, 400])) for _ in range(rng.randint(1, 4))))
    lines.append('B nNOPE')
    lines.append('B nall')
    top = max([v - off for _, v in inc] + [0])
    if top <= 12:
        ms = range(0, 1 << (top + 1))
    else:
        ms = [rng.getrandbits(min(top + 2, 420)) for _ in range(300)]
    for m in ms:
        lines.append('V ' + hx(m))
    for m in (-1, -2, 0xFFFFFFFF, 1 << 200, (1 << 300) - 1, -(1 << 70)):
        lines.append('V ' + hx(m))
    return lines


# ------------------------------------------------------------------------------------------------------------

def classify(op, impl_pub, spec):
    if op in ('L', 'K', 'R', 'IT', 'RIT'):
        if impl_pub == 'SR':
            return 'iteration-raises'
        hid = lambda t: any(x.startswith(HID['prefix']) for x in t.split(' ', 1)[-1].split(','))
        if hid(impl_pub) and not hid(spec):
            return 'hidden-members-listed'
        return 'view-changed'
    a, b = impl_pub.split()[0], spec.split()[0]
    if 'BAD:' in impl_pub:
        return 'member-inconsistent-' + impl_pub.split('BAD:')[1].split('=')[0]
    return {('SR', 'SU'): 'lenient-refused', ('SR', 'SM'): 'known-refused', ('SU', 'SR'): 'strict-accepts-unknown',
            ('SM', 'SR'): 'strict-accepts-unknown-as-recognised', ('SM', 'SU'): 'unknown-not-flagged',
            ('SU', 'SM'): 'known-flagged', ('SU', 'SU'): 'value-not-preserved', ('SM', 'SM'): 'wrong-member'}.get((a, b), 'other')


def analyse(lines, impl, mdl, fam, ctx=None):
    """compare one history line by line; yields ('violation', i, signature, got, want) for IMPL != SPEC on a public
    observable, ('corr', i, text) for IMPL != MODEL, ('advisory', i, text) for differences in private naming/state"""
    tainted = False
    table_ok = True
    per_class = {}          # key -> (tainted, table_ok) of the classes alive in this interpreter
    key, nsyn, nmask = None, 0, 0
    for i, (line, a, b) in enumerate(zip(lines, impl, mdl)):
        op = line.split()[0]
        if ctx:
            ctx.count('op:' + OPNAME.get(op, op))
        ap, bp = a.split(' | '), b.split(' | ')
        if a.startswith('harness-error') or b.startswith(('driver-error', '?')) or a in ('?', 'refused-second-history-in-one-interpreter'):
            raise RuntimeError('runner failure on %r: impl=%r model=%r' % (line, a, b))
        if op in ('E', 'T', 'EM', 'SW'):
            if key is not None:
                per_class[key] = (tainted, table_ok)
            if op == 'T':
                nsyn += 1
            if op == 'EM':
                nmask += 1
            key = {'E': lambda: line.split()[1], 'SW': lambda: line.split()[1], 'T': lambda: 'syn%d' % nsyn, 'EM': lambda: 'mask%d' % nmask}[op]()
            tainted = per_class.get(key, (False, True))[0] if op == 'SW' else False
            table_ok = b.endswith(' 1')
            if (a.split()[:1] != b.split()[:1]) if op == 'SW' else (a.split()[:2] != b.split()[:2]):
                yield ('corr', i, 'enumeration %r: the class has %s, the model %s' % (line, a, b))
            continue
        if op == 'SO':
            continue
        if op == 'HC':
            if ctx:
                ctx.case(('hc', i), nontrivial=False)
            if 'BAD:' in a and table_ok and not tainted:
                yield ('violation', i, {'history': 'values-only', 'op': OPNAME[op], 'class': 'member-handed-out-earlier-changed', 'arg': 'held-member-object'},
                       a, 'HC (every member handed out earlier unchanged, same object on re-conversion)')
            continue
        if op in ('C', 'A', 'AB', 'GA', 'P', 'N', 'G', 'I', 'F', 'L', 'K', 'R', 'IT', 'RIT'):
            impl_raw, impl_pub = ap[0], ap[1]
            mdl_raw, mdl_pub, spec, allowed = bp[0], bp[1], bp[2], bp[3] == '1'
            if ctx:
                ctx.case((op, fam, impl_pub.split()[0], line if op in ('L', 'K', 'R') else line.split()[1], tainted), nontrivial=True)
                if ':' in line:
                    ctx.count('argument:' + ARGKIND.get(line.split()[1].split(':')[0], 'int'))
                ctx.count('outcome:' + impl_pub.split()[0] + ('' if allowed else '/outside-property-histories'))
            if not allowed and bp[4] == '1':
                tainted = True           # a lenient conversion of an unknown name defined a member: outside the property's histories
            if table_ok and allowed and not tainted and impl_pub != spec:
                w1 = line.split()[1] if len(line.split()) > 1 else ''
                yield ('violation', i, {'history': 'values-only', 'op': OPNAME[op], 'class': classify(op, impl_pub, spec),
                                        'arg': ARGKIND.get(w1.split(':')[0], 'int') if ':' in w1 else 'int'}, impl_pub, spec)
            elif table_ok and tainted and impl_pub != spec:
                # a lenient conversion of an unknown *name* defined a visible member: the property quantifies over
                # integer conversions only, so this is reported as information, never as a violation or finding
                yield ('advisory', i, 'outside the property (lenient unknown NAME defines a member): %s gives %r, the values-only SPEC %r' % (OPNAME[op], impl_pub, spec))
            if impl_raw != mdl_raw and mdl_raw != '-':
                if impl_pub == mdl_pub and impl_pub.startswith('SU'):
                    yield ('advisory', i, 'hidden member naming differs (private): impl %r, model %r' % (impl_raw, mdl_raw))
                else:
                    yield ('corr', i, '%s: implementation %r, model %r' % (line, impl_raw, mdl_raw))
            continue
        if op in ('ST', 'MK', 'MR'):
            if 'private-attributes-missing' in a:
                yield ('advisory', i, 'private attributes of the class are gone; %s compared on public results only' % OPNAME[op])
                if op != 'ST' and not b.startswith('ok'):
                    yield ('corr', i, '%s: implementation builds the helper, model %r' % (line, b))
            elif op == 'ST':
                # the names of hidden members are the library's private naming: compare positions and values only
                norm = lambda t: ','.join((HID['prefix'] + '*:' + x.split(':')[1]) if x.startswith(HID['prefix']) else x for x in t.split(' ', 1)[-1].split(','))
                if norm(a) != norm(b):
                    yield ('corr', i, '%s: implementation %r, model %r' % (line, a, b))
            elif a != b:
                yield ('corr', i, '%s: implementation %r, model %r' % (line, a, b))
            if ctx:
                ctx.case(('mk', line), nontrivial=(op != 'ST'))
            continue
        if op in ('B', 'V', 'RT') and 'nomask' in (a, b):
            if a != b:
                yield ('corr', i, '%s: implementation %r, model %r' % (line, a, b))
            continue
        if op in ('B', 'V'):
            if ctx:
                ctx.case((op, line, a[:1]), nontrivial=True)
            if 'BAD:' in a:
                yield ('violation', i, {'history': 'mask', 'op': OPNAME[op], 'class': a.split('BAD:')[1].split()[0]}, a, b)
            elif a != b:
                yield ('corr', i, '%s: implementation %r, model %r' % (line, a, b))
            continue
        if op == 'RT':
            mdl_raw, spec, pre = bp[0], bp[1], bp[2] == '1'
            if ctx:
                ctx.case((op, line, a[:1], pre), nontrivial=True)
                ctx.count('roundtrip:' + ('defined' if pre else 'outside-precondition') + ':' + a[:1])
            if 'BAD:' in a:
                yield ('violation', i, {'history': 'mask', 'op': 'mask-roundtrip', 'class': a.split('BAD:')[1].split()[0]}, a, 'L' + spec[2:])
                continue
            if pre and a != 'L' + spec[2:]:
                yield ('violation', i, {'history': 'mask', 'op': 'mask-roundtrip', 'class': 'refused' if a.startswith('X') else 'different-set'}, a, 'L' + spec[2:])
            if a != mdl_raw:
                yield ('corr', i, '%s: implementation %r, model %r' % (line, a, mdl_raw))
            continue
        raise RuntimeError('unhandled line %r' % line)


def run(ctx):
    try:
        info = gen_c17.generate()
        ctx.obligation('member tables regenerated from the working tree (translators/gen_c17.py)', True, 'translator')
        try:
            json.dump(info, open(os.path.join(vf.BUILD, 'c17_tables_last.json'), 'w'))
        except Exception:
            pass
    except Exception as e:      # a translator failure is a failed obligation; the synthetic part of the search still runs
        ctx.obligation('member tables regenerated from the working tree (translators/gen_c17.py)', False, 'translator', repr(e)[-800:])
        ctx.broken_proof('the translator could not regenerate the enum tables: %s' % (repr(e)[-300:],))
        try:                    # carry on with the tables of the last successful run (Generated/DynEnumTables.v is still that one)
            info = json.load(open(os.path.join(vf.BUILD, 'c17_tables_last.json')))
        except Exception:
            info = {'enums': [], 'masks': [], 'wide': [], 'prefix': HID['prefix'], 'sep': HID['sep'], 'skipped_modules': [], 'internals': []}
    ctx.notes.append('generated: %d enum tables, %d masks, prefix %r, separator %r; 16-bit-wire enums %s; modules not importable %s'
                     % (len(info['enums']), len(info['masks']), info['prefix'], info['sep'],
                        [w.split(':')[1] for w in info['wide']], [m for m, _ in info['skipped_modules']]))
    HID.update(prefix=info['prefix'], sep=info['sep'])
    pb = getattr(ctx, 'pending_broken', None)
    if not ctx.coq():
        ctx.broken_proof()
    if pb:
        ctx.pending_broken = pb
    if ctx.thorough and getattr(ctx, 'coq_ok', False):
        with vf.Lock('coq'):
            rc, so, se = vf.sh('timeout 900 coqchk -o -silent -R theories FEC FEC.Properties.C17', cwd=vf.COQ, timeout=930)
        summary = ' '.join((so + se).split('CONTEXT SUMMARY')[-1].split())[:600]
        ctx.obligation('coqchk -o over the closure of Properties/C17.vo: no axioms, nothing assumed', rc == 0 and 'Axioms: <none>' in summary, 'coqchk', summary)
        if not (rc == 0 and 'Axioms: <none>' in summary):
            ctx.broken_proof('coqchk does not accept the compiled development')
    exe = vf.build_extracted('c17', 'C17', 'c17_driver.ml', conv=False)
    rng = ctx.rng
    enums = [(e['module'] + ':' + e['qualname'], [(n, v) for n, v in e['members']]) for e in info['enums']]
    mask_keys = {m['mask'] for m in info['masks']}
    jobs = []

    # ---- corpus first ------------------------------------------------------------------------------------
    cdir = os.path.join(vf.VERIF, 'corpus', 'C17')
    for f in sorted(os.listdir(cdir)) if os.path.isdir(cdir) else []:
        rec = json.load(open(os.path.join(cdir, f)))
        jobs.append({'family': rec.get('family', 'value'), 'lines': rec['lines'], 'name': 'corpus/' + f})

    # ---- family (a)+(b): value histories, every enum, exhaustive 8-bit range ----------------------------
    nhist = 24 if ctx.thorough else 12
    base_values = list(range(256))
    for h in range(nhist):
        lines = []
        for key, members in enums:
            names = [n for n, _ in members]
            vals = base_values + EXTRA_VALUES + (mask_enum_values(members) if key in mask_keys else [])
            if h == 0:
                order = list(vals)
            elif h == 1:
                order = list(reversed(vals))
            else:
                order = list(vals)
                rng.shuffle(order)
                if h % 3 == 0:
                    order = order[:rng.randint(1, 60)]          # short histories too
            lines += value_history(rng, 'E ' + key, names, vals, order, full=(h < 2), hidden_probes=(h % 2 == 1))
        for t in synthetic_tables(rng, 6):
            names = [n for n, _ in t]
            vals = list(range(-8, 72)) + [100, 200, 254, 255, 256, 300, 2 ** 40, -2 ** 40]
            order = list(vals)
            rng.shuffle(order)
            lines += value_history(rng, 'T ' + tok_members(t), names, vals, order, full=(h < 2), hidden_probes=True)
        jobs.append({'family': 'value', 'lines': lines, 'name': 'value-%d' % h})

    # ---- 16-bit-wire enums: the whole 16-bit range, split in slices over fresh interpreters (thorough) ----
    if ctx.thorough:
        nsl = 32
        for sl in range(nsl):
            lines = []
            for key in info['wide']:
                members = dict(enums)[key]
                vals = list(range(sl * 65536 // nsl, (sl + 1) * 65536 // nsl))
                order = list(vals)
                rng.shuffle(order)
                lines.append('E ' + key)
                lines += ['L', 'K']
                for v in order:
                    if rng.random() < 0.2:
                        lines.append('C %s 1' % hx(v))
                    lines.append('%s %s 0' % ('A' if rng.random() < 0.2 else 'C', hx(v)))
                    if rng.random() < 0.3:
                        lines.append('C %s 1' % hx(v))
                lines += ['L', 'K', 'R'] + ['G %s' % n for n, _ in members]
                lines += ['C %s 1' % hx(v) for v in vals]
            jobs.append({'family': 'value', 'lines': lines, 'name': 'wide-%d' % sl})
    else:
        lines = []
        for key in info['wide']:
            members = dict(enums)[key]
            vals = sorted(set([v + d for _, v in members for d in (-1, 0, 1) if v + d >= 0] + [256, 257, 511, 512, 1023, 4095, 32767, 32768, 65534, 65535]
                              + [rng.randrange(65536) for _ in range(2600)]))      # > 1024 distinct unknown values on one class
            order = list(vals)
            rng.shuffle(order)
            lines += value_history(rng, 'E ' + key, [n for n, _ in members], vals, order, full=False, hidden_probes=False)
        jobs.append({'family': 'value', 'lines': lines, 'name': 'wide-sample'})

    # ---- every value a 16-bit field can carry, and more than 65536 distinct ones, on ONE class in ONE interpreter
    # (limits / eviction).  aenum.extend_enum is linear in the class size, so this is the long pole: thorough only, and
    # the model side runs stateless (SPEC only: the model's lists would make it quadratic a second time).
    if ctx.thorough and info['wide']:
        key = info['wide'][0]
        members = dict(enums)[key]
        vals = list(range(65536)) + list(range(65536, 65536 + 700))
        rng.shuffle(vals)
        lines = ['E ' + key, 'SO 1', 'L', 'K']
        for j, v in enumerate(vals):
            lines.append('C %s 0' % hx(v))
            if j % 4096 == 4095:
                lines += ['K', 'L', 'R'] + ['C %s 1' % hx(rng.choice(vals[:j])) for _ in range(40)] + ['C %s 1' % hx(w) for _, w in members]
        lines += ['K', 'L', 'R', 'IT -'] + ['G %s' % n for n, _ in members] + ['C %s 1' % hx(w) for w in rng.sample(vals, 3000)] + ['SO 0']
        jobs.insert(0, {'family': 'value', 'lines': lines, 'name': 'all-16-bit-values-one-class', 'timeout': 9000})

    # ---- several classes alive side by side: operate on one, re-check the full public view of the others ----
    everything = [('E ' + k, k, ms) for k, ms in enums]
    for rep in range(2 if ctx.thorough else 1):
        pool = list(everything)
        rng.shuffle(pool)
        ngroups = 4
        for g in range(ngroups):
            lines = []
            part = pool[g::ngroups]
            nsyn = 0
            for j in range(0, len(part), 5):
                group = list(part[j:j + 5])
                for t in synthetic_tables(rng, 1)[-1:] + [rng.choice(synthetic_tables(rng, 0)[1:])]:
                    nsyn += 1
                    group.append(('T ' + tok_members(t), 'syn%d' % nsyn, t))
                rng.shuffle(group)
                # the T lines must be issued in numbering order: renumber after the shuffle
                k = nsyn - sum(1 for x in group if x[0].startswith('T '))
                fixed = []
                for setup, key_, ms in group:
                    if setup.startswith('T '):
                        k += 1
                        key_ = 'syn%d' % k
                    fixed.append((setup, key_, ms))
                lines += interleaved_history(rng, fixed)
            jobs.append({'family': 'interleaved', 'lines': lines, 'name': 'interleaved-%d-%d' % (rep, g)})

    # ---- family (c): lenient conversion of unknown names (known finding) ---------------------------------
    for h in range(3 if ctx.thorough else 2):
        lines = []
        for key, members in enums:
            if key in mask_keys:
                continue
            lines += lenient_name_history(rng, 'E ' + key, [n for n, _ in members], None)
        for t in synthetic_tables(rng, 4):
            lines += lenient_name_history(rng, 'T ' + tok_members(t), [n for n, _ in t], None)
        jobs.append({'family': 'lenient-name', 'lines': lines, 'name': 'lenient-name-%d' % h})

    # ---- members of other enumerations sharing one name (defect fixed in ce11434) -----------------------------------
    lines = []
    for key, members in enums:
        if key not in mask_keys:
            known = {v for _, v in members}
            lines += foreign_history(rng, 'E ' + key, [v for v in range(0, 40) if v not in known])
    jobs.append({'family': 'foreign', 'lines': lines, 'name': 'foreign-shared-name'})

    # ---- family (d): mask helpers ------------------------------------------------------------------------
    lines = []
    for m in info['masks']:
        members = dict(enums)[m['enum']]
        lines.append('MR %s %s' % (m['mask'], m['enum']))
        lines += mask_lines(rng, members, m['offset'], {v for _, v in m['values']}, True, True)
    jobs.append({'family': 'mask', 'lines': lines, 'name': 'mask-real'})
    lines = []
    for m in info['masks']:                     # the same helpers rebuilt by the decorator after the enum has a history
        members = dict(enums)[m['enum']]
        lines += ['E ' + m['enum'], 'C 1f 0', 'C -1 0', 'MK %s 1 * %s' % (hx(m['offset']), tok_members(m['base']))]
        lines += mask_lines(rng, members, m['offset'], {v for _, v in m['values']}, ctx.thorough, True)
        lines += ['C 1e 0', 'RT v1,i1e,i1f', 'L', 'K']
        lines += mask_class_history(rng)
    jobs.append({'family': 'mask', 'lines': lines, 'name': 'mask-real-after-history'})
    syn = [t for t in synthetic_tables(rng, 10 if ctx.thorough else 5)[1:] if max(v for _, v in t) <= 400]   # 1 << (2**40) is not a test
    per = max(1, len(syn) // 4)
    for j in range(0, len(syn), per):
        lines = []
        for t in syn[j:j + per]:
            vals = sorted({v for _, v in t})
            for off in sorted({0, 1, vals[0], vals[0] + 1, vals[0] - 2, -3}):
                for db in (1, 0):
                    for pred in ['*', ','.join(hx(v) for v in vals if v >= off) or '-', ','.join(hx(v) for v in vals[::2])]:
                        base = rng.choice(['-', 'ALL:ffffffff', 'ZZ:5,AA:1', 'ALL:ff,_priv:3'])
                        pre = rng.choice([[], ['C 3e 0'], ['N Q 0'], ['C -9 0', 'N W 0']])
                        lines += ['T ' + tok_members(t)] + pre + ['MK %s %d %s %s' % (hx(off), db, pred, base)]
                        inc = set(vals) if pred == '*' else {int(x, 16) for x in pred.split(',') if x not in ('-', '')}
                        lines += mask_lines(rng, t, off, inc, False, bool(db))[: (400 if ctx.thorough else 120)]
                        lines += ['C 3f 0', 'RT i3f', 'L']
                        if rng.random() < 0.5:
                            lines += mask_class_history(rng)
        jobs.append({'family': 'mask', 'lines': lines, 'name': 'mask-syn-%d' % j})

    jobs = [j for j in jobs if j['lines']]
    if not info['masks']:
        ctx.notes.append('no enum_bitmask helper found in the package: only synthetic helpers exercised')
    ctx.log('%d histories, %d lines' % (len(jobs), sum(len(j['lines']) for j in jobs)))
    results = run_jobs(exe, jobs)
    ctx.log('ran')

    first = {}          # signature key -> (job, line index, sig, got, want)
    corr = None
    advisory = set()
    for job, (impl, mdl) in zip(jobs, results):
        for ev in analyse(job['lines'], impl, mdl, job['family'], ctx):
            if ev[0] == 'violation':
                _, i, sig, got, want = ev
                first.setdefault(json.dumps(sig, sort_keys=True), (job, i, sig, got, want))
            elif ev[0] == 'corr':
                corr = corr or (ev[2], job, ev[1])
            else:
                advisory.add(ev[2])

    for n in sorted(advisory)[:20]:
        ctx.notes.append('advisory: ' + n)
    if len(advisory) > 20:
        ctx.notes.append('advisory: (%d more advisory notes not listed)' % (len(advisory) - 20))
    for k, (job, i, sig, got, want) in first.items():
        listed = any(f.get('status') == 'known' and all(sig.get(a) == b for a, b in f.get('match', {}).items()) for f in ctx.findings)
        lines = shrink(exe, job['lines'], i, job['family'], sig, minimise=not listed)
        impl, mdl = run_impl(lines), run_model(exe, lines)
        text = ('%s after %s: implementation shows %r, the property requires %r'
                % (lines[-1], ' ; '.join(lines[:-1]), impl[-1].split(' | ')[-1] if ' | ' in impl[-1] else impl[-1], want))
        ctx.violation(sig, text, {'family': job['family'], 'lines': lines, 'impl': impl, 'model': mdl, 'from': job['name']})
    if corr:
        text, job, i = corr
        lines = shrink(exe, job['lines'], i, job['family'], 'corr')
        ctx.broken_correspondence('model and implementation differ: ' + text,
                                  {'family': job['family'], 'lines': lines, 'impl': run_impl(lines), 'model': run_model(exe, lines), 'from': job['name']})
    for job, (impl, mdl) in list(zip(jobs, results))[:3]:
        ctx.sample({'history': job['name'], 'first_lines': [[l, a] for l, a in zip(job['lines'][:400:40], impl[:400:40])]})

    ctx.coverage['rule'] = (
        'every IntEnum subclass of the package (%d) x %d fresh-interpreter histories: all 256 8-bit values + %d out-of-range / negative / >64-bit values, '
        'first encountered leniently in identity, reverse and random orders (some truncated), interleaved with strict calls before and after, '
        '[] with ints, adapter parse+rebuild, re-conversions, list/len/reversed and name lookups (exact / lower / mixed case / unknown, case-insensitive), '
        'full snapshot before and after, strict pass over all values at the end; 16-bit-wire enums: %s; synthetic enums with aliases, '
        'negative values, names equal up to case, empty body; lenient unknown-name histories (known finding) separately; mask helpers: the package '
        'helpers and the decorator re-applied (also after the enum has a history), synthetic offset/predicate/define_bits/template-member '
        'combinations, all subsets of up to %d members as member objects / ints / names, to_values over all masks of the bit range. '
        'Arguments also as held member objects / members of other enums / bool / numpy scalars; iterations left open during first encounters; several classes alive in one '
        'interpreter with the full public view of each re-checked after operating on the others (incl. mask helper classes as enums, known-bit combinations); adapters declared '
        'before and after the values were seen; members handed out earlier re-checked; aliasing checks on mask results; thorough: all 16-bit values + 700 on one class. '
        'A case is distinct by (operation, argument, outcome kind, history family).' %
        (len(enums), nhist, len(EXTRA_VALUES), 'whole 16-bit range in 32 slices' if ctx.thorough else 'member neighbourhoods + 1500 random 16-bit values', 10))
    ctx.coverage['exhaustive'] = True
    ctx.coverage['exhaustive_scope'] = '8-bit range per enum per history%s; all subsets per mask helper' % ('; 16-bit range for 16-bit-wire enums' if ctx.thorough else '')
    ctx.trusted_base += [
        'Coq 8.16.1 kernel + vm_compute', 'extraction (ExtrOcamlBasic only) and ocaml/c17_driver.ml (hex <-> Z, char <-> ascii)',
        'stdlib enum.EnumMeta (__call__/__getitem__/__iter__/__reversed__ as value / name lookup and definition-order listing) modelled',
        'aenum.extend_enum modelled as TypeError on a used name, else append (alias when the value exists)',
        'inspect.getmembers modelled as name-sorted attributes; construct Int8ul/Int16ul/Int64sl + Enum modelled as the identity on ints',
        'translators/gen_c17.py + harness/py/c17_tables.py (introspection of the imported package)', 'harness/py/c17_enum.py',
        'hand transcription of DynamicEnumMeta / enum_bitmask control flow, held by the differential run']
    ctx.assumptions += [
        'member names and looked-up names are ASCII (str.upper/lower = ASCII case maps); the translator refuses other member names',
        'arguments are ints (plain, or IntEnum members of the same class): members of *other* enums and floats are outside "any integer"',
        'names given to the lenient name conversion are not attributes of the class (aenum refuses those with TypeError)',
        '`v in Enum`, `Enum.__members__`, dir() are inherited from the stdlib metaclass, expose hidden members after a lenient conversion, and are not observables of this property (not used by the package)']


def shrink_from(exe, lines, idx, fam, want, minimise, start):
    """shortest history found on which the same event (`want`: a violation signature, or 'corr') still occurs at the last
    line: class-defining and class-switching lines are kept, state-changing lines are removed by delta debugging, all
    other lines are dropped; bounded number of fresh-interpreter runs"""
    FIXED = ('E', 'T', 'MR', 'SW', 'EM', 'SO')
    nbefore = sum(1 for l in lines[:start] if l.split()[0] == 'T')      # synthetic classes are numbered per interpreter

    def renum(l):
        w = l.split()
        if w[0] == 'SW' and w[1].startswith('syn'):
            return 'SW syn%d' % (int(w[1][3:]) - nbefore)
        return l
    target = renum(lines[idx])
    seq = [renum(l) for l in lines[start:idx]]
    if not minimise:
        return seq + [target] if len(seq) < 400 else [l for l in seq if l.split()[0] in FIXED][-40:] + [target]

    def mutating(l):
        w = l.split()
        if target.split()[0] in ('RT', 'V', 'B') and w[0] in ('RT', 'V', 'B'):
            return True                  # a helper that remembers earlier calls makes these state-changing too
        return (w[0] in ('C', 'A', 'AB', 'P', 'N') and w[-1] == '0') or w[0] in ('MK', 'IT', 'RIT')
    items = [(l, 'fixed' if l.split()[0] in FIXED else 'mut') for l in seq if l.split()[0] in FIXED or mutating(l)]
    budget = [22]

    def build(keep):
        out = [l for j, (l, k) in enumerate(items) if k == 'fixed' or j in keep]
        # a switch that is immediately followed by another switch does nothing
        out = [l for j, l in enumerate(out) if not (l.split()[0] == 'SW' and j + 1 < len(out) and out[j + 1].split()[0] in ('SW', 'E', 'T', 'MR', 'EM'))]
        return out + [target]

    def same(keep):
        budget[0] -= 1
        ls = build(keep)
        try:
            evs = list(analyse(ls, run_impl(ls), run_model(exe, ls), fam))
        except RuntimeError:
            return False
        last = [e for e in evs if e[1] == len(ls) - 1]
        return any((e[0] == 'corr') if want == 'corr' else (e[0] == 'violation' and e[2] == want) for e in last)
    muts = [j for j, (l, k) in enumerate(items) if k == 'mut']
    cur = list(muts)
    if not same(set(cur)):
        return None
    tv = target.split()[1:2]
    for cand in ([], cur[-1:], [j for j in cur if items[j][0].split()[1:2] == tv]):
        if len(cand) < len(cur) and same(set(cand)):
            cur = list(cand)
            break
    n = 2
    while len(cur) > 1 and budget[0] > 0:
        size = max(1, len(cur) // n)
        for s_ in range(0, len(cur), size):
            cand = cur[:s_] + cur[s_ + size:]
            if budget[0] > 0 and same(set(cand)):
                cur, n = cand, max(n - 1, 2)
                break
        else:
            if size == 1:
                break
            n = min(len(cur), n * 2)
    return build(set(cur))


def shrink(exe, lines, idx, fam, want, minimise=True):
    """see shrink_from: first within the history of the class at hand (or the group of classes alive together); when
    the event needs what happened to OTHER classes earlier in the same interpreter, over the whole run so far"""
    if any(l.split()[0] == 'SW' for l in lines[:idx + 1]):
        start = max([i for i in range(idx + 1) if lines[i] == 'SO 0'] + [0])      # 'SO 0' (a no-op) opens a group of classes
    else:
        start = max(i for i in range(idx + 1) if lines[i].split()[0] in ('E', 'T', 'MR'))
    for st in dict.fromkeys([start, 0]):
        r = shrink_from(exe, lines, idx, fam, want, minimise, st)
        if r is not None:
            return r
    return lines[start:idx + 1]


def replay(ctx, rec):
    case = rec.get('case', rec.get('detail', {}).get('case', rec))
    lines = case['lines']
    exe = vf.build_extracted('c17', 'C17', 'c17_driver.ml', conv=False)
    impl, mdl = run_impl(lines), run_model(exe, lines)
    bad = 0
    for l, a, b in zip(lines, impl, mdl):
        bp = b.split(' | ')
        print('%-40s IMPL  %s' % (l, a))
        print('%-40s MODEL %s' % ('', bp[0]))
        if len(bp) >= 3:
            print('%-40s SPEC  %s%s' % ('', bp[2] if len(bp) > 3 else bp[1], '' if len(bp) < 4 or bp[3] == '1' else '   (operation outside the property\'s histories)'))
    return 0
