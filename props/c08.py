"""C08 — the log index lists exactly the messages of a sequential scan of the file, for every worker count.

IMPL  = fast_generate_index(path, num_threads=W) of the working tree (harness/py/c08_impl.py), with the real
        block constants and — as a supporting run — with the module constants patched to READ=64, MAX=48.
MODEL = extracted fi_generate (Models/FastIndexerM.v) with the same constants;  SPEC = extracted fi_spec_x
        (proved equal to the end-of-file aware scan of Base judge_fe).
A case is a file recipe (harness/py/c08_files.py); every case runs for W in {1,2,3,5,16}.
"""
import glob
import json
import os
import re
import struct
import subprocess
import sys
import zlib
from concurrent.futures import ThreadPoolExecutor

import vf
from translators import gen_fe, gen_c08

sys.path.insert(0, os.path.join(vf.VERIF, 'harness', 'py'))
import c08_files as F  # noqa: E402

LEVEL = 'proof'
THREADS = [1, 2, 3, 5, 16]
SMALL = (64, 48)
IMPL = os.path.join(vf.VERIF, 'harness', 'py', 'c08_impl.py')
MAXEXP = 1 << 24


# ------------------------------------------------------------------------------------------------------
# runners
# ------------------------------------------------------------------------------------------------------
def _clean(err):
    return '\n'.join(l for l in err.split('\n') if l.strip() and 'leap' not in l.lower() and 'conda' not in l.lower())


def run_impl(ctx, cases, nproc=None):
    """cases: list of dicts (id, recipe, consts, threads, legacy_view) -> list of result dicts (same order)"""
    if not cases:
        return []
    nproc = max(1, min(nproc or vf.NCPU, len(cases)))
    shards = [cases[i::nproc] for i in range(nproc)]

    def one(sh_):
        p = subprocess.run([vf.PY, IMPL, ctx.tmp], input='\n'.join(json.dumps(c) for c in sh_) + '\n',
                           capture_output=True, text=True, env=vf.IMPL_ENV, timeout=3000)
        lines = [json.loads(l) for l in p.stdout.split('\n') if l.startswith('{')]
        hist = [l for l in lines if 'history' in l]
        lines = [l for l in lines if 'history' not in l]
        if p.returncode != 0 or len(lines) != len(sh_):
            raise RuntimeError('c08_impl failed (rc=%s, %d/%d lines): %s' % (p.returncode, len(lines), len(sh_), _clean(p.stderr)[-1500:]))
        for h in hist:
            HISTORY.append(h)
        return lines
    with ThreadPoolExecutor(nproc) as ex:
        outs = list(ex.map(one, shards))
    res = [None] * len(cases)
    for s, o in enumerate(outs):
        for j, r in enumerate(o):
            res[s + j * nproc] = r
    return res


def model_line(case, res, cfg='cur', data=None):
    data = F.build(case['recipe']) if data is None else data
    orc = ','.join('%s:%s' % (k, '-' if v is None else '%x/%x' % (v[0], v[1])) for k, v in sorted(res['oracle'].items())) or '-'
    rd, mx = res['consts']
    return 'RUN %s %d %d %s %s %s' % (cfg, rd, mx, ','.join(str(t) for t in case['threads']), data.hex() or '-', orc)


def run_model(exe, lines):
    """lines are dealt round-robin to the runner copies (big files are generated together; contiguous shards would
    put them all on one core)"""
    if not lines:
        return []
    k = max(1, min(vf.NCPU, len(lines)))
    order = [i for s in range(k) for i in range(s, len(lines), k)]
    # the extracted functions recurse to the depth of a block buffer (98304 frames): give them stack
    argv = ['/bin/sh', '-c', 'ulimit -s 4000000 2>/dev/null || ulimit -s unlimited 2>/dev/null; exec "$0"', exe]
    out = vf.run_parallel(argv, [lines[i] for i in order], nproc=k)
    res = [None] * len(lines)
    for i, o in zip(order, out):
        res[i] = json.loads(o)
    return res


def catalog(ctx):
    p = subprocess.run([vf.PY, IMPL, '--catalog'], capture_output=True, text=True, env=vf.IMPL_ENV, timeout=300)
    lines = [l for l in p.stdout.split('\n') if l.startswith('[')]
    probe = [json.loads(l) for l in p.stdout.split('\n') if l.startswith('{')]
    if p.returncode != 0 or not lines or not probe:
        raise RuntimeError('c08_impl --catalog failed: ' + _clean(p.stderr)[-1500:])
    # the supporting run relies on pool workers inheriting module constants patched in the parent (fork)
    global SUPPORTING
    if not probe[0].get('patchable'):
        SUPPORTING = False
        ctx.notes.append('supporting small-constant run SKIPPED: the block constants are no longer patchable module attributes (advisory, private state)')
    elif probe[0]['workers_see'] != [list(SMALL)] or not probe[0]['other_process']:
        raise RuntimeError('c08: pool workers do not inherit patched module constants: %r' % (probe[0],))
    ctx.notes.append('fork probe: %r' % ({k: v for k, v in probe[0].items() if k != 'registered'},))
    global REGISTERED
    REGISTERED = [tuple(x) for x in probe[0]['registered']]
    if len(REGISTERED) < len(json.loads(lines[0])):
        raise RuntimeError('c08: registered class list shorter than the packable catalog')
    cat = [(t, v, bytes.fromhex(h), so) for t, v, h, so in json.loads(lines[0])]
    if len(cat) < 20:
        raise RuntimeError('c08: message catalog has only %d classes' % len(cat))
    return cat


def cur_cfg_flags():
    """flags of fi_cur in the model file (lencheck timeguard wcclamp sizewide payslice reportall)"""
    txt = open(os.path.join(vf.THEORIES, 'Models', 'FastIndexerM.v')).read()
    m = re.search(r'Definition fi_cur : fi_cfg := mkCfg((?:\s+(?:true|false)){6})\s*\.', txt)
    if not m:
        raise RuntimeError('c08: fi_cur not found in the model')
    return [w == 'true' for w in m.group(1).split()]


# ------------------------------------------------------------------------------------------------------
# classification helpers (python side, used only to label failing cases and to evaluate the precondition;
# the expected index itself comes from the extracted SPEC)
# ------------------------------------------------------------------------------------------------------
def candidates(data):
    """offset -> size of every complete CRC-valid candidate (sync, 24 B header, psize <= 2^24, whole message, CRC)"""
    out = {}
    n = len(data)
    pos = data.find(F.SYNC)
    while pos >= 0:
        if pos + 24 <= n:
            crc, = struct.unpack_from('<I', data, pos + 4)
            psize, = struct.unpack_from('<I', data, pos + 16)
            if psize <= MAXEXP and pos + 24 + psize <= n and zlib.crc32(data[pos + 8:pos + 24 + psize]) == crc:
                out[pos] = 24 + psize
        pos = data.find(F.SYNC, pos + 1)
    return out


def diff_class(impl, spec, cands):
    """structural label of IMPL != SPEC (both lists of [t,type,off,idx])"""
    io = [e[2] for e in impl]
    so = [e[2] for e in spec]
    if io != so:
        extra = [o for o in io if o not in set(so)]
        missing = [o for o in so if o not in set(io)]
        if extra and any(o not in cands for o in extra):
            return 'entry-not-crc-valid', extra[0]
        if missing and extra:
            return 'missing-and-extra-entries', missing[0]
        if missing:
            return 'missing-entry', missing[0]
        if extra:
            return 'extra-entry', extra[0]
        return 'order-or-duplicate', io[0] if io else None
    for a, b in zip(impl, spec):
        if a[1] != b[1]:
            return 'wrong-type', a[2]
        if a[0] != b[0]:
            return 'wrong-time', a[2]
        if a[3] != b[3]:
            return 'wrong-ordinal', a[2]
    return 'other', None


def inside_crossing_candidate(off, spec, cands):
    """the lost entry lies inside a CRC-valid candidate that starts inside an accepted message and ends after it"""
    for a in spec:
        ao = a[2]
        ae = ao + cands.get(ao, 0)
        for bo, bs in cands.items():
            if ao < bo < ae < bo + bs and bo < off < bo + bs:
                return True
    return False


# ------------------------------------------------------------------------------------------------------
# generators
# ------------------------------------------------------------------------------------------------------
def stamp_payload(cat_entry, sec, ns):
    t, v, p, so = cat_entry
    if so >= 0:
        p = p[:so] + struct.pack('<II', sec & 0xFFFFFFFF, ns & 0xFFFFFFFF) + p[so + 8:]
    return p


def cat_msg(rng, cat, timed=None, maxpay=None, seq=0):
    pool = [c for c in cat if (timed is None or (c[3] >= 0) == timed) and (maxpay is None or len(c[2]) <= maxpay)]
    if not pool:
        return sized_msg(24 + max(0, min(maxpay or 0, 8)), seq=seq)
    c = rng.choice(pool)
    pay = stamp_payload(c, rng.choice([0, 1, 59, 1000, 123456, rng.randrange(1 << 31), rng.randrange(1 << 32)]),
                        rng.choice([0, 1, 500000000, 999999999, rng.randrange(10 ** 9)]))
    return F.msg(c[0], [['h', pay.hex()]], ver=c[1], seq=seq)


def sized_msg(size, mtype=20000, fillbyte=0x55, **kw):
    """a message of exactly `size` bytes (size >= 24) of an unregistered type"""
    return F.msg(mtype, [['z', size - 24, fillbyte]], **kw)


def layout(items, total, fill):
    """place segments at absolute offsets; gaps are filled. items: [(offset, segment)]. Overlapping items are dropped."""
    out, pos = [], 0
    k = [0]

    def filler(n):
        k[0] += 1
        return ['z', n, fill[1]] if fill[0] == 'z' else ['r', fill[1] * 1000 + k[0], n]
    for off, seg in sorted(items, key=lambda x: x[0]):
        n = F.seg_len(seg)
        if off < pos or off + n > total:
            continue
        if off > pos:
            out.append(filler(off - pos))
        out.append(seg)
        pos = off + n
    if total > pos:
        out.append(filler(total - pos))
    return out


def gen_boundary(rng, cat, R, M, deltas, nb_choices, quick):
    """messages and sync words placed so that their start / end falls at k*READ + d and at the end of the
    overlap region k*READ + MAX + d"""
    cases = []
    sizes = [24, 25, 32, 164 if M >= 164 else 40, M - 1, M]
    modes = ['start@kR', 'end@kR', 'start@kR+M', 'end@kR+M', 'sync@kR']
    n = 0
    for d in deltas:
        for mode in modes:
            nb = nb_choices[n % len(nb_choices)]
            tail = rng.choice([1, 2, 3, 23, 24, 25, 100, M - 1, M, M + 1, R // 2, R - 1, R])
            total = (nb - 1) * R + tail
            items = []
            for k in range(1, nb + 1):
                size = sizes[(n + k) % len(sizes)]
                base = k * R + (M if mode.endswith('+M') else 0) + d
                if mode.startswith('start'):
                    items.append((base, sized_msg(size, seq=k)))
                elif mode.startswith('end'):
                    items.append((base - size, sized_msg(size, seq=k)))
                else:
                    items.append((base, ['h', (F.SYNC + bytes(rng.randrange(256) for _ in range(rng.choice([0, 1, 22, 30])))).hex()]))
            # a few ordinary messages elsewhere
            for _ in range(3):
                items.append((rng.randrange(max(1, total)), cat_msg(rng, cat, maxpay=M - 24)))
            fill = ('z', rng.choice([0, 0x2E, 0x31])) if n % 3 else ('r', n + 1)
            cases.append({'kind': 'boundary:' + mode, 'delta': d, 'recipe': layout(items, total, fill)})
            n += 1
    return cases


def gen_boundary_max(rng, cat, R, M):
    """largest allowed messages (MAX, MAX-1 bytes) starting at the last candidate offsets of a block and at the
    first of the next — the cases that need every byte of the READ+MAX read"""
    cases = []
    for d in (-3, -2, -1, 0, 1, 2):
        for size in (M, M - 1):
            for nb in (2, 3, 5):
                total = (nb - 1) * R + max(M + 10, R // 2)
                items = [(k * R + d, sized_msg(size, seq=k)) for k in range(1, nb)]
                cases.append({'kind': 'boundary:max-size', 'delta': d, 'recipe': layout(items, total, ('z', 0) if d % 2 else ('r', 77 + d))})
    return cases


def gen_tails(rng, cat, R, M):
    cases = []
    tails = [0, 1, 2, 3, 4, 22, 23, 24, 25, 26, 47, 48, M - 2, M - 1, M, M + 1, M + 2, M + 23, M + 24, M + 25, R - 1]
    for nb in (1, 2, 3):
        for t in tails:
            total = (nb - 1) * R + t
            if total <= 0:
                cases.append({'kind': 'tail', 'recipe': []})
                continue
            for variant in range(3):
                items = []
                if variant == 0 and total >= 24:       # message ending exactly at EOF
                    s = rng.choice([24, 25, 40, min(M, total)])
                    s = min(s, total)
                    if s >= 24:
                        items.append((total - s, sized_msg(s)))
                elif variant == 1 and total >= 30:     # message cut by EOF (complete header, payload incomplete)
                    s = rng.choice([30, 40, M])
                    cut = rng.randrange(1, min(s - 24, total - 24) + 1) if min(s - 24, total - 24) >= 1 else 1
                    whole = F.build([sized_msg(s)])
                    items.append((total - (s - cut), ['h', whole[:s - cut].hex()])) if s - cut <= total else None
                else:                                   # sync word in the last bytes
                    for back in (2, 3, 24, 25):
                        if total >= back:
                            items.append((total - back, ['h', F.SYNC.hex()]))
                if total > 200:
                    items.append((rng.randrange(total - 100), cat_msg(rng, cat, maxpay=M - 24)))
                cases.append({'kind': 'tail', 'recipe': layout([i for i in items if i], total, ('z', 0))})
    return cases


def gen_last_bytes(rng, cat, R, M):
    """a header-only (24-byte) and a 25-byte message as the very last bytes of the file, at odd and even file sizes,
    small files and files ending just after / before block and overlap boundaries"""
    cases = []
    for s_ in (24, 25):
        for total in (s_, s_ + 1, 100, 101, M, M + 1, R - 1, R, R + 1, R + 24, R + 25, R + M - 1, R + M, R + M + 1, 2 * R, 2 * R + 1):
            if total < s_:
                continue
            items = [(total - s_, sized_msg(s_, mtype=13000 + s_))]
            if total > 300:
                items.append((7, cat_msg(rng, cat, maxpay=M - 24)))
            cases.append({'kind': 'tail:last-bytes', 'recipe': layout(items, total, ('z', 0) if total % 3 else ('z', 0x2E))})
    return cases


def gen_tiny(rng):
    cases = []
    for n in range(0, 30):
        cases.append({'kind': 'tiny', 'recipe': [['z', n, 0]] if n else []})
        cases.append({'kind': 'tiny', 'recipe': [['h', (F.SYNC * 15)[:n].hex()]] if n else []})
    for extra in range(0, 6):
        cases.append({'kind': 'tiny', 'recipe': [['z', extra, 0], sized_msg(24), ['z', extra, 7]]})
    return cases


def gen_nested(rng, cat, R, M, count):
    """wrapper messages whose payload is a run of complete messages (and junk), straddling block boundaries"""
    cases = []
    for n in range(count):
        nb = rng.choice([2, 3, 4])
        total = (nb - 1) * R + rng.choice([5, 100, M, R - 3])
        items = []
        for k in range(1, nb):
            inner, room = [], rng.choice([M - 24, M // 2, 200 if M > 400 else M - 24])
            used = 0
            while True:
                m = cat_msg(rng, cat, maxpay=max(0, min(room - used - 24, M - 48)))
                ln = F.seg_len(m)
                if used + ln > room:
                    break
                inner.append(m)
                used += ln
                if rng.random() < 0.3 and used + 3 <= room:
                    inner.append(['z', 3, 0x2E]); used += 3
                if room - used < 24:
                    break
            w = F.msg(rng.choice([20001, 13120]), inner)
            wl = F.seg_len(w)
            start = k * R - rng.randrange(0, wl + 1)       # anywhere from wholly before to starting at the boundary
            items.append((start, w))
        cases.append({'kind': 'nested', 'recipe': layout(items, total, ('z', 0) if n % 2 else ('r', 500 + n))})
    return cases


def gen_overlap(rng, cat, R, M, count):
    """DESIGN 21 #15: wrapper A across a block boundary, CRC-valid B starting inside A after the boundary and
    running past A's end, real message C after A inside B"""
    cases = []
    for n in range(count):
        nb = rng.choice([2, 3, 4, 6])
        k = rng.randrange(1, nb)
        if M < 24 + 24 + 24 + 40:       # small constants: only the tightest construct fits (A = B = 2 headers, C = 1 header)
            slack = M - 48
            csz, pre, inner, mid, post = 24, 0, rng.randrange(0, slack + 1), 0, 0
            mid = rng.randrange(0, slack - inner + 1)
        else:
            csz = rng.choice([24, 32, 164])
            pre = rng.randrange(0, 60)
            inner = rng.randrange(0, 12)
            mid = rng.randrange(0, 10)
            post = rng.randrange(0, 10)
        a_size = 24 + pre + 24 + inner
        b_size = 24 + inner + mid + csz + post
        if a_size > M or b_size > M:
            continue
        x = ['x', {'pre': [['z', pre, 0]], 'inner': [['z', inner, 1]], 'mid': [['z', mid, 2]], 'c': sized_msg(csz, mtype=10777),
                   'post': [['z', post, 3]]}]
        # B's header starts at a_start + 24 + pre; put the boundary between A's start and B's start
        b_rel = 24 + pre
        a_start = k * R - rng.randrange(1, b_rel + 1)
        total = max((nb - 1) * R + rng.choice([5, 200, M]), a_start + F.seg_len(x) + 1)
        items = [(a_start, x), (rng.randrange(0, max(1, a_start - 200)) if a_start > 400 else 0, cat_msg(rng, cat, maxpay=M - 24))]
        cases.append({'kind': 'overlap', 'recipe': layout(items, total, ('z', 0))})
    return cases


def gen_trunc(rng, cat, R, M):
    """DESIGN 21 #17: a header that claims more payload than is present, with the CRC of the truncated slice —
    at end of file, and at the end of a block's read buffer"""
    cases = []
    for nb in (1, 2, 3):
        for present, claim in ((0, 1), (10, 11), (500 if M > 600 else 10, 1000 if M > 1100 else 20), (5, M - 24), (0, MAXEXP)):
            m = F.msg(10000, [['z', present, 9]], claim=claim, crc_len=16 + present, ver=2)
            total = (nb - 1) * R + 200 + 24 + present
            items = [(total - 24 - present, m), (10, cat_msg(rng, cat, maxpay=M - 24))]
            cases.append({'kind': 'trunc-eof', 'recipe': layout(items, total, ('z', 0))})
    # end of a read buffer: candidate at block offset j claiming a size that runs past READ+MAX bytes (oversized message)
    for k in (0, 1):
        for back in (1, 2, 40):
            start = k * R + R - back                   # among the last candidates of block k
            read_end = k * R + R + M
            present = read_end - (start + 24)
            claim = present + rng.choice([1, 50])
            m = F.msg(10000, [['z', present, 4]], claim=claim, crc_len=16 + present)
            total = read_end + 3 * R // 2
            cases.append({'kind': 'trunc-readend', 'recipe': layout([(start, m)], total, ('z', 0))})
    return cases


def gen_stamps(rng, cat):
    cases = []
    timed = [c for c in cat if c[3] >= 0]
    stamps = [(0, 0), (1, 999999999), (0xFFFFFFFE, 0xFFFFFFFE), (0xFFFFFFFE, 5), (0xFFFFFFFE, 999999999), (0xFFFFFFFD, 1999999999),
              (0xFFFFFFFD, 2000000001), (0xFFFFFFFF, 0), (7, 0xFFFFFFFF), (1 << 25, 999999999), (1 << 31, 999999999), (16777216, 999999999),
              (16777215, 999999999), (0xFFFFFFF0, 0xFFFFFFFE), (4294967294, 1500000000), (123, 4000000000), (0, 1), (0, 4294967294)]
    for i, (s, ns) in enumerate(stamps):
        c = timed[i % len(timed)]
        items = [F.msg(c[0], [['h', stamp_payload(c, s, ns).hex()]], ver=c[1]), ['z', 7, 0], cat_msg(rng, cat)]
        cases.append({'kind': 'stamp', 'stamp': [s, ns], 'recipe': items})
    return cases


def gen_big(rng, cat, R, M):
    cases = []
    for size in (M + 1, M + 100, 65535, 65536, 70000, R + M - 1, R + M, R + M + 1):
        for start in (0, 5, R - 10):
            cases.append({'kind': 'oversized', 'recipe': [['z', start, 0], sized_msg(size), ['z', 50, 0], cat_msg(rng, cat), ['z', R, 0]]})
    return cases


def gen_short_payload(rng, cat):
    """a registered timed class with a payload too short for its layout, followed by bytes that look like a stamp"""
    cases = []
    timed = [c for c in cat if c[3] == 0]
    for i, k in enumerate((0, 4, 7)):
        c = timed[i % len(timed)]
        cases.append({'kind': 'short-payload', 'recipe': [F.msg(c[0], [['h', c[2][:k].hex()]], ver=c[1]),
                                                         ['h', struct.pack('<II', 77, 5).hex()], ['z', 300, 0], cat_msg(rng, cat)]})
    return cases


def gen_periodic(rng, cat, R, M, quick):
    """period-READ repetition: a block-sized chunk X repeated, the file ending in a copy of X cut inside one of its
    messages — the bytes the truncated message lacks are present exactly READ bytes earlier (and 2*READ, ...), so any
    state carried from a worker's previous block (a reused read buffer, a cached header) completes it wrongly; plus
    messages straddling every k*READ whose continuation differs from period to period.  The truncated message is not
    a message of the file: the index must not list it, for any worker count."""
    cases = []
    small = R < 1000
    if small:
        placements = [(a, sz) for sz in (24 + 1, 30, 40, M) for a in range(0, R - sz + 1, 1 if not quick else 3)]
    else:
        placements = [(M + 100, 1024), (M + 101, 200), (R // 2 + 1, M), (R - 3000, 2048), (R - 40, 40), (20000, 140 + 24)]
    for a, sz in placements:
        x = layout([(a, sized_msg(sz, mtype=10000 + (a % 7)))] + ([(0, cat_msg(rng, cat, maxpay=min(M - 24, a - 24)))] if a >= 48 else []),
                   R, ('z', 0) if (a + sz) % 2 else ('r', 31 + a))
        if F.seg_len(['p', x, 1]) != R:
            continue
        cuts = sorted({a + 24, a + 25, a + sz - 1, a + (24 + sz) // 2})
        for cut in cuts:
            if not (a + 24 <= cut < a + sz) or cut < M:      # complete header, incomplete message, last block is searched
                continue
            for n in ((1, 2) if quick and not small else (1, 2, 3, 5)):
                if quick and small and (a + cut + n) % 2:
                    continue
                cases.append({'kind': 'periodic:truncated-copy', 'recipe': [['p', x, n], ['t', x, cut]]})
    # messages straddling every boundary, different continuation per period, last one cut by EOF
    for d in ((1, 5, 23, 24, 30) if not quick else (5, 24)):
        for nb in (2, 3, 4):
            sz = min(M, 200) if not small else 40
            items = [(k * R - d, F.msg(10001, [['z', sz - 24, (17 * k) & 255]], seq=k)) for k in range(1, nb + 1)]
            total = nb * R - d + max(24, min(sz - 1, d + 3))
            segs = layout(items[:-1], nb * R - d, ('z', 0))
            segs.append(['t', [items[-1][1]], total - (nb * R - d)])
            cases.append({'kind': 'periodic:straddle', 'recipe': segs})
    return cases


REGISTERED = []
SUPPORTING = True
HISTORY = []      # per harness process: problems found by the in-process history checks


def undecodable_payloads(default, maxpay):
    """payloads that are too short / empty / garbage for (nearly) every class layout"""
    out = [b'']
    out += [bytes(k) for k in (1, 4, 7, 8, 12, 20, 40, 100) if k <= maxpay]
    out += [b'\xff' * k for k in (8, 24, 60, 200) if k <= maxpay]
    out += [bytes((7 * i + 3) & 255 for i in range(k)) for k in (16, 24, 100) if k <= maxpay]
    if default:
        out += [default[:k] for k in {len(default) - 1, len(default) // 2, min(len(default), 13)} if 0 <= k <= maxpay]
        out += [(default + b'\x00' * 5)[:maxpay]] if len(default) + 5 <= maxpay else []
    seen, uniq = set(), []
    for p in out:
        if p not in seen:
            seen.add(p); uniq.append(p)
    return uniq


def gen_undecodable(rng, cat, R, M, per_file):
    """for EVERY registered message type (struct based, construct based, classes whose unpack raises other exception
    types, classes that cannot even pack a default instance): CRC-valid messages whose payload is empty / too short /
    garbage for the class, between ordinary messages, in ordinary positions and straddling block boundaries.  They are
    messages of the file: the index must list them (with no time unless the class yields one)."""
    defaults = {c[0]: c for c in cat}
    msgs = []
    for t, ver in REGISTERED:
        d = defaults.get(t)
        pays = undecodable_payloads(d[2] if d else None, M - 24)
        for j, p in enumerate(pays):
            msgs.append(F.msg(t, [['h', p.hex()]], ver=(ver if j % 5 else (ver + 1) % 256), seq=len(msgs)))
    rng.shuffle(msgs)
    cases = []
    for n in range(0, len(msgs), per_file):
        chunk = msgs[n:n + per_file]
        segs, size, k = [], 0, 0
        # lead-in so that the run of messages straddles the first block boundary; later boundaries come by themselves
        lead = max(0, R - rng.randrange(0, min(R, 24 * per_file)))
        if (n // per_file) % 3 == 0:
            lead = rng.randrange(0, 50)
        segs.append(['z', lead, 0])
        for m in chunk:
            segs.append(m)
            k += 1
            if k % 4 == 0:
                segs.append(cat_msg(rng, cat, maxpay=M - 24))
            if k % 3 == 0:
                segs.append(['z', rng.randrange(0, 7), rng.choice([0, 0x2E])])
        segs.append(['z', rng.randrange(0, 30), 0])
        cases.append({'kind': 'undecodable', 'recipe': segs})
    return cases


def gen_header_fields(rng, cat, R, M):
    """every header field the acceptance test does NOT constrain is varied on otherwise valid messages: reserved bytes
    non-zero (one byte each, both), protocol_version != 2, message_version != the class version, sequence numbers going
    backwards / 2^32-1 / repeated, every kind of source_identifier.  Such messages are indexed like any other."""
    pool = [c for c in cat if len(c[2]) + 24 <= M]
    variants = []
    for v in (0x0001, 0x0100, 0x00FF, 0xFF00, 0xFFFF, 0x8000):
        variants.append({'reserved': v})
    for v in (0, 1, 3, 127, 255):
        variants.append({'proto': v})
    for v in (0xFFFFFFFF, 0xFFFFFFFE, 5, 4, 4, 0, 0x80000000):
        variants.append({'seq': v})
    for v in (0, 1, 0x7FFFFFFF, 0xFFFFFFFE, 0xFFFFFFFF):
        variants.append({'src': v})
    variants.append({'reserved': 0xFFFF, 'proto': 0, 'seq': 0xFFFFFFFF, 'src': 0})
    msgs = []
    for j, var in enumerate(variants):
        for c in (pool[j % len(pool)], pool[(3 * j + 1) % len(pool)]):
            d = {'type': c[0], 'ver': c[1], 'payload': [['h', stamp_payload(c, 100 + j, 0).hex()]]}
            d.update(var)
            msgs.append(['m', d])
    for j, c in enumerate(pool):                       # message_version other than the class version, every class
        for ver in {(c[1] + 1) % 256, 255, 0} - {c[1]}:
            msgs.append(['m', {'type': c[0], 'ver': ver, 'payload': [['h', c[2].hex()]], 'seq': j}])
    rng.shuffle(msgs)
    cases = []
    per = 40
    for n in range(0, len(msgs), per):
        chunk = msgs[n:n + per]
        lead = rng.randrange(0, 40) if (n // per) % 2 == 0 else max(0, R - rng.randrange(0, min(R, 30 * per)))
        segs = [['z', lead, 0]]
        for k, m in enumerate(chunk):
            segs.append(m)
            if k % 5 == 4:
                segs.append(['z', rng.randrange(0, 9), rng.choice([0, 0x2E])])
        cases.append({'kind': 'header-fields', 'recipe': segs})
    # the first and the last message of a file, and a message starting one byte before a block boundary
    for var in ({'reserved': 1}, {'reserved': 0xFFFF}, {'proto': 0}, {'src': 0}):
        a = dict({'type': 13000, 'payload': [['z', 8, 0]]}, **var)
        cases.append({'kind': 'header-fields', 'recipe': [['m', a], ['z', 5, 0], ['m', dict(a, seq=7)]]})
        cases.append({'kind': 'header-fields', 'recipe': [['z', R - 1, 0], ['m', a], ['z', 30, 0]]})
    return cases


def gen_edge_types(rng, cat, R, M):
    """files whose last / first / only accepted message has type 0 (MessageType.INVALID, which FileIndex also uses as its
    end-of-file marker), an unregistered type, or a registered type without P1 time — with and without trailing junk,
    between messages with and without P1 time"""
    cases = []
    timed = [c for c in cat if c[3] >= 0 and len(c[2]) + 24 <= M]
    untimed = [c for c in cat if c[3] < 0 and len(c[2]) + 24 <= M]

    def tm(sec):
        c = timed[sec % len(timed)]
        return F.msg(c[0], [['h', stamp_payload(c, sec, 0).hex()]], ver=c[1])

    def ut(k):
        c = untimed[k % len(untimed)]
        return F.msg(c[0], [['h', c[2].hex()]], ver=c[1])
    specials = [F.msg(0, []), F.msg(0, [['z', 8, 1]]), F.msg(20000, [['z', 4, 2]]), F.msg(65535, []), ut(0), ut(3),
                F.msg(timed[0][0], [], ver=timed[0][1])]
    for i, sp in enumerate(specials):
        for junk in ([], [['z', 5, 0]], [['r', 40 + i, 30]]):
            cases.append({'kind': 'edge-type:only', 'recipe': [sp] + junk})
            cases.append({'kind': 'edge-type:last', 'recipe': [tm(10 + i), ut(i), ['z', 3, 0], tm(20 + i), F.msg(20001, [['z', 2, 0]]), sp] + junk})
            cases.append({'kind': 'edge-type:first', 'recipe': junk + [sp, tm(30 + i), ut(i + 1), tm(31 + i)]})
        cases.append({'kind': 'edge-type:middle', 'recipe': [tm(1), sp, ut(i), tm(2)]})
        cases.append({'kind': 'edge-type:all-untimed-last', 'recipe': [ut(i), F.msg(20000, []), sp]})
    # the same at the end of a multi-block file
    for i, sp in enumerate(specials[:4]):
        cases.append({'kind': 'edge-type:last-multiblock', 'recipe': [tm(5), ['z', R + 17 + i, 0], ut(i), ['r', 7 + i, R // 2], tm(6), sp]})
    return cases


def gen_mix(rng, cat, R, M, count, maxblocks):
    cases = []
    for n in range(count):
        total_target = rng.randrange(1, maxblocks * R)
        segs, size, seq = [], 0, 0
        dense = rng.random() < 0.5
        while size < total_target:
            r = rng.random()
            if r < (0.75 if dense else 0.15):
                m = cat_msg(rng, cat, maxpay=M - 24, seq=seq)
                seq += 1
                if rng.random() < 0.05:
                    m[1]['crc_xor'] = 1 << rng.randrange(32)
                if rng.random() < 0.03:
                    m[1]['reserved'] = rng.randrange(1, 65536)
                if rng.random() < 0.03:
                    m = F.msg(rng.choice([20001, 13120]), [m, ['z', rng.randrange(0, 5), 0x2E], cat_msg(rng, cat, maxpay=max(0, M - 24 - 24 - F.seg_len(m) - 5 - 24))]) \
                        if F.seg_len(m) + 60 < M else m
                s = m
            elif r < 0.85:
                s = ['r', rng.randrange(1 << 30), rng.randrange(1, 400 if dense else min(3 * R, 30000))]
            elif r < 0.93:
                s = ['h', (F.SYNC * rng.randrange(1, 4) + bytes(rng.randrange(256) for _ in range(rng.randrange(0, 30)))).hex()]
            else:
                s = ['z', rng.randrange(1, 50), rng.choice([0, 0x2E, 0x31, 0xFF])]
            segs.append(s)
            size += F.seg_len(s)
        if rng.random() < 0.3:      # cut the tail
            pass
        cases.append({'kind': 'mix', 'recipe': segs})
    return cases


def gen_small_exhaustive(rng, cat, quick):
    """READ=64, MAX=48: one message at every offset of files around every block/overlap boundary"""
    R, M = SMALL
    cases = []
    small_timed = [c for c in cat if c[3] >= 0 and len(c[2]) + 24 <= M]
    fsizes = [R - 1, R, R + 1, R + M - 1, R + M, R + M + 1, 2 * R - 1, 2 * R, 2 * R + 1, 2 * R + M - 1, 2 * R + M, 2 * R + M + 1, 3 * R + 7, 3 * R + M + 2, 5 * R + 20]
    msizes = [24, 25, 40, 48]
    if quick:
        fsizes = fsizes[::2] + [2 * R + M]
    for fs in fsizes:
        for ms in msizes:
            step = 1
            for off in range(0, fs - ms + 1, step):
                if quick and (off * 7 + fs + ms) % 5:
                    continue
                if ms == 40 and small_timed:
                    c = small_timed[(off + fs) % len(small_timed)]
                    pay = stamp_payload(c, off, 250000000 * (off % 4))
                    m = F.msg(c[0], [['h', pay.hex()]], ver=c[1]) if len(pay) == 16 else sized_msg(ms)
                else:
                    m = sized_msg(ms)
                fill = ('z', 0) if (off + fs) % 2 else ('z', 0x2E)
                cases.append({'kind': 'small:single', 'recipe': layout([(off, m)], fs, fill)})
    # pairs / triples at random offsets, nested and overlapping constructs, random junk
    for n in range(150 if quick else 3000):
        fs = rng.randrange(1, 6 * R)
        items = [(rng.randrange(0, fs), sized_msg(rng.choice(msizes + [30, 47, 49, 60]), seq=j)) for j in range(rng.randrange(1, 6))]
        items += [(rng.randrange(0, fs), ['h', F.SYNC.hex()]) for _ in range(rng.randrange(0, 4))]
        cases.append({'kind': 'small:multi', 'recipe': layout(items, fs, ('z', 0) if n % 2 else ('r', 9000 + n))})
    cases += [dict(c, kind='small:' + c['kind']) for c in gen_overlap(rng, cat, R, M, 60 if quick else 1500)]
    cases += [dict(c, kind='small:' + c['kind']) for c in gen_nested(rng, cat, R, M, 60 if quick else 600)]
    cases += [dict(c, kind='small:' + c['kind']) for c in gen_edge_types(rng, cat, R, M)]
    cases += [dict(c, kind='small:' + c['kind']) for c in gen_header_fields(rng, cat, R, M)]
    cases += [dict(c, kind='small:' + c['kind']) for c in gen_undecodable(rng, cat, R, M, 60)]
    cases += [dict(c, kind='small:' + c['kind']) for c in gen_periodic(rng, cat, R, M, quick)]
    cases += [dict(c, kind='small:' + c['kind']) for c in gen_tails(rng, cat, R, M)]
    cases += [dict(c, kind='small:' + c['kind']) for c in gen_last_bytes(rng, cat, R, M)]
    cases += [dict(c, kind='small:' + c['kind']) for c in gen_boundary_max(rng, cat, R, M)]
    cases += [dict(c, kind='small:' + c['kind']) for c in gen_trunc(rng, cat, R, M)]
    cases += [dict(c, kind='small:' + c['kind']) for c in gen_boundary(rng, cat, R, M, range(-25, 26) if not quick else list(range(-25, 26, 2)) + [-24, 0, 24], [2, 3, 4, 5, 6], quick)]
    for c in cases:
        c['consts'] = list(SMALL)
    return cases


# ------------------------------------------------------------------------------------------------------
# evaluation
# ------------------------------------------------------------------------------------------------------
def path_name(w):
    if w.startswith('save:'):
        return 'fast_generate_index(save_index=True, num_threads=%s)' % w[5:]
    return {'load': 'second fast_generate_index() call loading the saved .p1i', 'reader': 'MixedLogReader(path).get_index()',
            'reader-again': 'second MixedLogReader(path).get_index() (index file on disk)',
            'trace:2': 'fast_generate_index(num_threads=2) with trace logging enabled',
            'env': 'fast_generate_index(relative path, other file name/extension/cwd, stale .p1i present, force_reindex=True, save_index=True, np.seterr(all=raise), num_threads=2)',
            'env-load': 'second call loading the index saved under the other file name'}.get(w, 'fast_generate_index(save_index=False, num_threads=%s)' % w)


def same_run(a, b):
    if isinstance(a, dict) or isinstance(b, dict):
        return isinstance(a, dict) and isinstance(b, dict) and a.get('raise') is not None and a.get('raise') == b.get('raise')
    return a == b


def evaluate(ctx, case, res, mdl, report=True):
    """returns list of (signature, text) violations for one case (IMPL vs SPEC), and a correspondence message or None"""
    data = F.build(case['recipe'])
    rd, mx = res['consts']
    cands = candidates(data)
    small = all(s <= mx for s in cands.values())
    spec = mdl.get('spec')
    cname = 'real' if not case.get('consts') else 'small'
    viols, corr = [], None
    if 'error' in mdl:
        return [], 'extracted model/spec failed: %s' % mdl['error']
    runs = res['runs']
    ok_ws = [w for w in runs if not isinstance(runs[w], dict)]
    last_save = [k for k in runs if k.startswith('save:')]
    for w, impl in runs.items():
        # the model run an index obtained through another public path corresponds to (same worker count)
        mk = w
        if w.startswith('save:'):
            mk = w[5:]
        elif w == 'load':
            mk = last_save[-1][5:] if last_save else None
        elif w.startswith('reader'):
            mk = str(res.get('cpu_count'))
        elif w.startswith('trace:'):
            mk = w[6:]
        elif w.startswith('env'):
            mk = '2'
        if mk != w and mk not in mdl['runs']:
            m = mdl['runs'].get('1') if small else None     # under the precondition the model is the same for every W
            if m is None:
                m = impl
        else:
            m = mdl['runs'].get(mk)
        if isinstance(impl, dict):
            viols.append(({'class': 'raises', 'exc': impl['raise'], 'what': re.sub(r'\d{4,}', 'N', impl.get('msg', ''))[:60], 'consts': cname},
                          'index via %s raised %s: %s on %s' % (path_name(w), impl['raise'], impl.get('msg', ''), F.describe(case['recipe']))))
        else:
            bad = [e for e in impl if e[2] not in cands]
            if bad:
                viols.append(({'class': 'entry-not-crc-valid', 'consts': cname},
                              'index entry at offset %d (%s) is not a complete CRC-valid message of the file: %s' % (bad[0][2], path_name(w), F.describe(case['recipe']))))
            elif small and impl != spec:
                cls, off = diff_class(impl, spec, cands)
                dep = 'worker-count-dependent' if any(runs[x] == spec for x in ok_ws) else 'all-worker-counts'
                sig = {'class': cls, 'workers': dep, 'consts': cname}
                if not w.isdigit():
                    sig['path'] = w.split(':')[0]
                    if isinstance(runs.get('1'), list) and runs['1'] == spec:
                        sig['plain_path_ok'] = True
                if cls == 'missing-entry' and off is not None:
                    sig['lost_inside_crossing_candidate'] = inside_crossing_candidate(off, spec, cands)
                viols.append((sig, '%s: index differs from the sequential scan (%s at offset %s; %d entries vs %d expected) on %s'
                              % (path_name(w), cls, off, len(impl), len(spec), F.describe(case['recipe']))))
        if m is None or (isinstance(m, dict) and 'error' in m):
            corr = corr or 'extracted model failed for num_threads=%s: %r' % (w, m)
        elif not same_run(impl, m):
            corr = corr or 'IMPL and MODEL differ for num_threads=%s on %s' % (w, F.describe(case['recipe']))
    return viols, corr


SHRINK_DEADLINE = [0.0]      # absolute time after which no further shrinking is attempted in this run


def shrink(ctx, exe, case, sig, legacy_view, per_sig=40.0):
    """delta-debugging on the recipe: replace runs of segments (halves, quarters, ... single segments) by zero fill of
    the same length while the same signature reproduces.  Bounded in time: per signature and per run."""
    import time
    t_end = min(time.time() + per_sig, SHRINK_DEADLINE[0])

    def still(rec):
        if time.time() > t_end:
            return False
        c = dict(case, recipe=rec, legacy_view=legacy_view, id=0)
        try:
            r = run_impl(ctx, [c], 1)[0]
            m = run_model(exe, [model_line(c, r)])[0]
        except Exception:
            return False
        vs, _ = evaluate(ctx, c, r, m)
        return any(s_ == sig for s_, _ in vs)

    def zero(rec, i, j):
        n = sum(F.seg_len(x) for x in rec[i:j])
        return rec[:i] + ([['z', n, 0]] if n else []) + rec[j:]

    def is_zero(x):
        return x[0] == 'z' and (len(x) < 3 or x[2] == 0)
    rec = list(case['recipe'])
    chunk = max(1, len(rec) // 2)
    while chunk >= 1 and time.time() < t_end:
        i, changed = 0, False
        while i < len(rec) and time.time() < t_end:
            j = min(len(rec), i + chunk)
            if all(is_zero(x) for x in rec[i:j]):
                i = j
                continue
            trial = zero(rec, i, j)
            if still(trial):
                rec, changed = trial, True
                i += 1
            else:
                i = j
        if chunk == 1 and not changed:
            break
        chunk = chunk // 2 if chunk > 1 else (1 if changed else 0)
    # merge adjacent zero fills
    out = []
    for x in rec:
        if out and is_zero(x) and is_zero(out[-1]):
            out[-1] = ['z', out[-1][1] + x[1], 0]
        else:
            out.append(list(x))
    return out


def _read_generated(name, keys):
    """last generated values of Generated/<name>.v (used when a translator cannot run)"""
    txt = open(os.path.join(vf.THEORIES, 'Generated', name + '.v')).read()
    out = {}
    for k in keys:
        m = re.search(r'Definition %s : N := (\d+)\.' % k, txt)
        if not m:
            raise RuntimeError('c08: %s not in Generated/%s.v' % (k, name))
        out[k] = int(m.group(1))
    return out


def translate(ctx):
    """regenerate the constants by evaluating the working tree.  A translator that cannot run is a failed obligation and a
    pending alarm, but not the end of the run: the last generated constants stay in place so that the search for a
    failing input still happens."""
    keys = ['READ_SIZE_BYTES', 'MAX_FE_MSG_SIZE_BYTES', 'MAX_EXPECTED_SIZE_BYTES']
    for name, gen, what in (('gen_fe', gen_fe, 'wire-format and block constants'), ('gen_c08', gen_c08, 'index column ranges and the no-time marker')):
        label = 'translator %s derived the %s from the working tree' % (name, what)
        try:
            vals = gen.generate()
            ctx.obligation(label, True, 'translator', repr({k: v for k, v in vals.items() if not str(k).startswith('crc_table')})[:600])
        except Exception as e:
            ctx.obligation(label, False, 'translator', repr(e)[:400])
            if not getattr(ctx, 'pending_broken', None):
                ctx.pending_broken = {'kind': 'translator', 'what': '%s cannot derive its constants from the working tree: %r' % (name, e)}
            if name == 'gen_c08' and not os.path.exists(os.path.join(vf.THEORIES, 'Generated', 'FastIndexerConsts.v')):
                vf.write_if_changed(os.path.join(vf.THEORIES, 'Generated', 'FastIndexerConsts.v'),
                                    'From Coq Require Import NArith.\nOpen Scope N_scope.\nDefinition FI_TIME_INVALID : N := 4294967295.\n'
                                    'Definition FI_INT_MAX : N := 4294967295.\nDefinition FI_TYPE_MAX : N := 65535.\n'
                                    'Definition FI_OFFSET_MAX : N := 18446744073709551615.\nDefinition FI_SIZE_MAX : N := 4294967295.\n')
    c = _read_generated('FEConsts', keys)
    ctx.notes.append('constants in force: %r %r' % (c, _read_generated('FastIndexerConsts', ['FI_TIME_INVALID', 'FI_INT_MAX', 'FI_TYPE_MAX', 'FI_OFFSET_MAX', 'FI_SIZE_MAX'])))
    return c['READ_SIZE_BYTES'], c['MAX_FE_MSG_SIZE_BYTES']


def run(ctx):
    R, M = translate(ctx)
    if not ctx.coq():
        if not getattr(ctx, 'pending_broken', None):
            ctx.broken_proof()
    elif ctx.thorough and not ctx.coqchk():
        ctx.broken_proof('coqchk rejected the compiled development')
    exe = vf.build_extracted('c08', 'C08', 'c08_driver.ml', conv=False)
    flags = cur_cfg_flags()
    legacy_view = not flags[4]
    cat = catalog(ctx)
    rng = ctx.rng
    quick = not ctx.thorough

    cases = []
    for p in sorted(glob.glob(os.path.join(vf.VERIF, 'corpus', 'C08', '*.json'))):
        c = json.load(open(p))
        cases.append({'kind': 'corpus:' + os.path.basename(p)[:-5], 'recipe': c['recipe'], 'consts': c.get('consts')})
    ncorpus = len(cases)
    deltas = list(range(-25, 26))
    real = []
    real += gen_tiny(rng) if not quick else gen_tiny(rng)[::2] + gen_tiny(rng)[1:8:2]
    real += gen_last_bytes(rng, cat, R, M)
    real += gen_stamps(rng, cat)
    real += gen_short_payload(rng, cat)
    real += gen_edge_types(rng, cat, R, M)
    real += gen_header_fields(rng, cat, R, M)
    real += gen_undecodable(rng, cat, R, M, 120)
    real += gen_periodic(rng, cat, R, M, quick) if not quick else gen_periodic(rng, cat, R, M, quick)[::2]
    real += gen_trunc(rng, cat, R, M)
    real += gen_tails(rng, cat, R, M) if not quick else gen_tails(rng, cat, R, M)[::2]
    real += gen_boundary(rng, cat, R, M, deltas if not quick else [-25, -24, -23, -3, -2, -1, 0, 1, 2, 3, 23, 24, 25], [2, 3, 4, 5, 6, 2, 3], quick)
    real += gen_boundary_max(rng, cat, R, M) if not quick else gen_boundary_max(rng, cat, R, M)[::3]
    real += gen_overlap(rng, cat, R, M, 12 if quick else 60)
    real += gen_nested(rng, cat, R, M, 10 if quick else 60)
    real += gen_big(rng, cat, R, M) if not quick else gen_big(rng, cat, R, M)[::3]
    real += gen_mix(rng, cat, R, M, 24 if quick else 200, 6)
    cases += real
    nreal = len(cases)
    if SUPPORTING:
        cases += gen_small_exhaustive(rng, cat, quick)
    for i, c in enumerate(cases):
        c['id'] = i
        # small-constant files have at most a handful of blocks: 16 workers (mostly idle ones) on every fourth case
        c['threads'] = THREADS if ((not c.get('consts') and (not quick or i % 2 == 0)) or (c.get('consts') and i % 4 == 0)) else THREADS[:-1]
        c['legacy_view'] = legacy_view
        # every public way to obtain the index (saved, loaded, through MixedLogReader): all edge-type / corpus / tiny /
        # stamp / tail / truncation / undecodable-payload files, every third other real-constant and every eighth small-constant file
        k0 = c['kind'].split(':')[0]
        if 'edge-type' in c['kind'] or k0 in ('corpus', 'stamp', 'short-payload', 'trunc-eof', 'undecodable', 'header-fields') or c['kind'] == 'tail:last-bytes' or (k0 in ('tiny', 'tail') and i % 2 == 0) \
                or (not c.get('consts') and i % (4 if quick else 2) == 0) or (c.get('consts') and i % (12 if quick else 4) == 0):
            c['paths'] = [1, 3]
        c['real_consts'] = [R, M]
        c.setdefault('consts', None)
    ctx.log('%d cases (%d corpus, %d real constants, %d small constants)' % (len(cases), ncorpus, nreal - ncorpus, len(cases) - nreal))

    del HISTORY[:]
    res = run_impl(ctx, cases)
    ctx.log('IMPL done')
    mdl = run_model(exe, [model_line(c, r) for c, r in zip(cases, res)])
    ctx.log('MODEL/SPEC done')

    # in-process histories (harness/py/c08_impl.py history()): earlier results unchanged, same file indexed again later in
    # the same interpreter, returned arrays mutated, log file untouched
    byid = {c['id']: c for c in cases}
    nkept = 0
    for h in HISTORY:
        nkept += len(h.get('kept', []))
        for pr in h['history']:
            c = byid.get(pr.get('id'), {})
            ctx.violation({'class': 'history', 'what': pr['problem'][:60]}, '%s: %s on %s' % (pr['problem'], {k: v for k, v in pr.items() if k not in ('problem', 'id')},
                          F.describe(c.get('recipe', []))), {'recipe': c.get('recipe'), 'consts': c.get('consts'), 'threads': THREADS, 'paths': [1, 3], 'history': pr})
    ctx.count('history:files-kept-and-rechecked', nkept)
    if nkept == 0:
        raise RuntimeError('c08: no in-process history was checked')
    import time as _time
    SHRINK_DEADLINE[0] = _time.time() + 120.0
    seen_sig = set()
    first_corr = None
    for c, r, m in zip(cases, res, mdl):
        kind = c['kind']
        ctx.count('kind:' + kind.split('@')[0])
        nb = -(-r['size'] // r['consts'][0])
        ctx.count('blocks:%s:%s' % ('real' if not c['consts'] else 'small', nb if nb < 7 else '7+'))
        if isinstance(m.get('spec'), list):
            ctx.count('spec-entries', len(m['spec']))
        viols, corr = evaluate(ctx, c, r, m)
        for w in r['runs']:
            ctx.case((c['id'], w), nontrivial=r['size'] > 0)
        for sig, text in viols:
            key = json.dumps(sig, sort_keys=True)
            if key in seen_sig:
                continue
            seen_sig.add(key)
            rec = c['recipe']
            try:
                rec = shrink(ctx, exe, c, sig, legacy_view)
            except Exception as e:  # shrinking is best effort
                ctx.notes.append('shrink failed: %r' % (e,))
            cc = {'recipe': rec, 'consts': c['consts'], 'threads': THREADS, 'kind': kind, 'describe': F.describe(rec), 'impl': r['runs'] if rec is c['recipe'] else None}
            ctx.violation(sig, text, cc)
        if corr and not viols and first_corr is None:
            first_corr = (corr, {'recipe': c['recipe'], 'consts': c['consts'], 'threads': THREADS, 'kind': kind, 'impl': r['runs'], 'model': m.get('runs'), 'spec': m.get('spec')})
        if len(ctx.coverage['samples']) < 4 and r['size'] and isinstance(r['runs']['1'], list) and r['runs']['1']:
            ctx.sample({'file': F.describe(c['recipe']), 'consts': r['consts'], 'index(num_threads=3)[:3]': r['runs']['3'][:3] if isinstance(r['runs']['3'], list) else r['runs']['3']})
    if first_corr:
        ctx.broken_correspondence(first_corr[0], first_corr[1])

    ctx.coverage['rule'] = (
        'Every case is a whole log file indexed with num_threads in {1,2,3,5,16} (save_index=False); all edge-type, corpus, tiny, stamp, tail, truncated and undecodable-payload files, every 2nd (quick: 4th) other real-constant file and every 4th (quick: 12th) small-constant file are also indexed through the other public paths: fast_generate_index(save_index=True) with 1 and 3 workers, a second call that loads the saved .p1i, MixedLogReader(path).get_index() with default arguments without and then with an index file on disk; every returned index (time, type, offset, message_index) must be the same; the same files are also indexed with trace logging enabled and under another file name / extension / directory through a relative path with a different current directory, a stale .p1i on disk and the numpy error state set to raise. Each harness process (one interpreter, ~200 different files in a row) keeps the FileIndex objects of its first files alive and at the end checks that they are unchanged, that indexing those files again gives the same index, that mutating the arrays of a returned index affects neither the saved .p1i nor later calls, and that the log file is never modified. The full index arrays '
        'are compared with the extracted MODEL run with the same constants and, when every CRC-valid candidate of the file is <= MAX (the '
        'property\'s precondition), with the extracted SPEC; independently of the precondition every entry must be a complete CRC-valid message '
        'and no call may raise. MAIN run, real constants READ=%d MAX=%d: files of 1-6 blocks with messages / sync words whose start or end is at '
        'k*READ+d and k*READ+MAX+d for d in [-25,25] (%s), tails 0..MAX+25 and READ-1 after 0-2 blocks, 0..29-byte files, messages cut by EOF, period-READ repetition (a block-sized chunk repeated, the file ending in a copy cut inside a message whose missing bytes sit exactly READ earlier; straddling messages whose continuation differs per period), '
        'CRC-of-truncated-slice headers at EOF and at the end of a read buffer, wrappers with nested messages across boundaries, the #15 overlap '
        'construct, stamps around 2^32 s and rounding, files whose only / first / last accepted message has type 0 (MessageType.INVALID, also the end-of-file marker of FileIndex), an unregistered type or no P1 time, with and without trailing junk, for EVERY registered message type CRC-valid messages with empty / too short / garbage payloads (struct-based, construct-based and non-packable classes) in ordinary positions and across block boundaries, messages > MAX and > 65535 B, otherwise valid messages with every unconstrained header field varied (reserved bytes non-zero, protocol_version != 2, message_version != class version, sequence numbers backwards / 2^32-1, all kinds of source_identifier), random mixes of all %d '
        'packable classes with junk, false syncs, corrupt CRCs, non-zero reserved bytes. SUPPORTING run (module constants patched to READ=64, MAX=48 '
        'in the harness process; workers are forked so they inherit them — checked): one message of size 24/25/40/48 at every offset of files around '
        'every block and overlap boundary (%s), random multi-message files, the same overlap/nested/tail/truncation/boundary families. '
        'A case is distinct by (file, worker count); empty files are counted trivial.'
        % (R, M, 'd in {0, +-1, +-2, +-3, +-23, +-24, +-25} in the quick tier' if quick else 'every d', len(cat), 'a fifth of the offsets in the quick tier' if quick else 'every offset'))
    ctx.coverage['exhaustive'] = False
    ctx.coverage['supporting_runs'] = 'cases whose kind starts with "small:" use monkey-patched constants (READ=64, MAX=48) and are supporting evidence only'
    ctx.trusted_base += [
        'Coq 8.16.1 kernel + vm_compute', 'extraction (ExtrOcamlBasic only) and ocaml/c08_driver.ml',
        'hand transcription of fast_indexer.py control flow (held by correspondence)',
        'numpy (frombuffer/where/maximum.accumulate/structured array casts), struct, zlib.crc32 modelled by small Gallina functions',
        'multiprocessing.Pool.starmap returns results in argument order',
        'per-class payload decoding (cls().unpack + get_p1_time) is an uninterpreted function in the theorems and is evaluated by the library itself in the harness (C01 covers the codecs)',
        'translators gen_fe.py / gen_c08.py (constants obtained by importing the working tree and probing its behaviour)', 'harness/py/c08_files.py, c08_impl.py']
    ctx.assumptions += ['file size < 2^53 (math.ceil(file_size / READ) is computed in binary64)', 'max_bytes is not given; no index file exists (force_reindex)',
                        'the file does not change while it is indexed', 'num_threads >= 1']


def replay(ctx, rec):
    case = rec.get('case', rec)
    if 'detail' in rec and 'case' in rec['detail']:
        case = rec['detail']['case']
    if 'recipe' not in case:
        print(json.dumps(rec, indent=1)[:3000])
        return 0
    try:
        gen_fe.generate(); gen_c08.generate()
    except Exception as e:
        print('translator failed (%r); using the last generated constants' % (e,))
    exe = vf.build_extracted('c08', 'C08', 'c08_driver.ml', conv=False)
    c = {'id': 0, 'recipe': case['recipe'], 'consts': case.get('consts'), 'threads': case.get('threads', THREADS), 'legacy_view': not cur_cfg_flags()[4]}
    r = run_impl(ctx, [c], 1)[0]
    m = run_model(exe, [model_line(c, r)])[0]
    print('FILE ', F.describe(c['recipe']), 'constants', r['consts'])
    for w in r['runs']:
        print('IMPL  num_threads=%-2s' % w, r['runs'][w])
        print('MODEL num_threads=%-2s' % w, m.get('runs', {}).get(w, m))
    print('SPEC               ', m.get('spec', m))
    vs, corr = evaluate(ctx, c, r, m)
    for s, t in vs:
        print('VIOLATION', json.dumps(s), t)
    if corr:
        print('CORRESPONDENCE', corr)
    return 1 if vs or corr else 0
