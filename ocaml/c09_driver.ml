(* line protocol for the C09 index-file model.  bytes are hex ("-" = empty, "none" = no file); P1 table as in c18_driver.ml.
     F <file>                                        -> off:len,...            frames of the sequential scan (SPEC)
     O <cur|legacy> <p1i|none> <data> <ignore 0|1> <p1table> [<max_bytes>]
                                                      -> crash | load=<outcome>;msgs=off:len,...;p1i=<hex|none>
   outcome: accept:<n entries> | rebuild:<0|1 deleted> | crash | na (index not consulted) *)
let n_of_int (i : int) : n = if i = 0 then N0 else Npos (pos_of_int i)
let int_of_n (x : n) : int = match x with N0 -> 0 | Npos p -> int_of_pos p
let bytes_of_hex h = List.map n_of_int (hex_to_ints (if h = "-" then "" else h))
let hex_of_bytes l = match l with [] -> "-" | _ -> ints_to_hex (List.map int_of_n l)
let opt_hex o = match o with None -> "none" | Some l -> hex_of_bytes l
let parse_table (t : string) : (n list * n option) list =
  if t = "-" then [] else
  List.map (fun kv -> match String.split_on_char '=' kv with
      | [k; "n"] -> (bytes_of_hex k, None)
      | [k; v] -> (bytes_of_hex k, Some (n_of_int (int_of_string v)))
      | _ -> failwith "bad table") (String.split_on_char ',' t)
let p1_of tbl = fun bs -> (match List.assoc_opt bs tbl with Some v -> v | None -> None)
let show_frames fs =
  let s = String.concat "," (List.map (fun (o, bs) -> Printf.sprintf "%d:%d" (int_of_nat o) (List.length bs)) fs) in
  if s = "" then "-" else s
let show_outcome o = match o with
  | Accepted i -> Printf.sprintf "accept:%d" (List.length i)
  | Rebuild d -> Printf.sprintf "rebuild:%d" (if d then 1 else 0)
  | Crash -> "crash"
let () =
  try while true do
    let line = input_line stdin in
    (try (match words line with
     | ["F"; f] -> print_endline (show_frames (file_frames (bytes_of_hex f)))
     | "O" :: which :: p :: d :: ig :: t :: rest ->
        let loader = if which = "legacy" then load_legacy else load in
        let p1i = if p = "none" then None else Some (bytes_of_hex p) in
        let data = bytes_of_hex d in
        let ignore = (ig = "1") in
        let lo = (match p1i with Some idx when not ignore -> show_outcome (loader idx data) | _ -> "na") in
        let res = (match rest with
                   | [mx] -> open_log_max (p1_of (parse_table t)) loader p1i data ignore (nat_of_int (int_of_string mx))
                   | _ -> open_log (p1_of (parse_table t)) loader p1i data ignore) in
        (match res with
         | OpenCrash -> print_endline "crash"
         | Opened o -> print_endline (Printf.sprintf "load=%s;msgs=%s;p1i=%s" lo (show_frames o.o_msgs) (opt_hex o.o_p1i)))
     | _ -> print_endline "?")
     with e -> print_endline ("ERR " ^ Printexc.to_string e))
  done with End_of_file -> ()
