(* line protocol for the extracted codec model (Models/CodecM.v + Generated/LayoutPy.v)
     D <index> <hex|->        decode with description <index>:  "FAIL"  or
                              "OK n=<n> dom=<0|1> pack=<hex|FAIL> size=<n|FAIL> env=<entries>"
     T <sec> <ns>             timestamp adapter: "dec=<hex bits|nan> enc=<hex|FAIL> legacy=<hex|FAIL> dom=<0|1>"
   integers are printed in hexadecimal (they do not fit OCaml ints: 64-bit patterns); env entries are id=value with
   value = <hex int> | nan | s:<hex bytes of a string> | b:<hex> | r:[rec|rec..] | t:[hdr rec][obj rec]:<size> | opaque *)
let rec bits_of_pos (p : positive) : int list = match p with XH -> [1] | XO q -> 0 :: bits_of_pos q | XI q -> 1 :: bits_of_pos q
let hex_of_pos (p : positive) : string =
  let bits = bits_of_pos p in
  let rec grp l = match l with
    | [] -> []
    | a :: b :: c :: d :: r -> (a + 2*b + 4*c + 8*d) :: grp r
    | a :: b :: c :: [] -> [a + 2*b + 4*c]
    | a :: b :: [] -> [a + 2*b]
    | a :: [] -> [a] in
  String.concat "" (List.rev_map (fun d -> Printf.sprintf "%x" d) (grp bits))
let hex_of_z (x : z) : string = match x with Z0 -> "0" | Zpos p -> hex_of_pos p | Zneg p -> "-" ^ hex_of_pos p
let rec n_of_int (n : int) : n = if n = 0 then N0 else Npos (pos_of_int n)
let int_of_n (x : n) : int = match x with N0 -> 0 | Npos p -> int_of_pos p
let show_fval (v : codec_fval) = match v with FInt x -> hex_of_z x | FNaN -> "nan" | FBytes l -> "s:" ^ ints_to_hex (List.map int_of_z l)
let show_rec (r : (n * codec_fval) list) = String.concat "," (List.map (fun (i, v) -> Printf.sprintf "%d=%s" (int_of_n i) (show_fval v)) r)
let show_value (v : codec_value) = match v with
  | VF f -> show_fval f
  | VBytes l -> "b:" ^ ints_to_hex (List.map int_of_z l)
  | VRecs rs -> "r:[" ^ String.concat "|" (List.map show_rec rs) ^ "]"
  | VTag (h, o, sz) -> Printf.sprintf "t:[%s][%s]:%d" (show_rec h) (show_rec o) (int_of_nat sz)
  | VOpaque -> "opaque"
let show_env (e : (n * codec_value) list) = String.concat ";" (List.map (fun (i, v) -> Printf.sprintf "%d=%s" (int_of_n i) (show_value v)) e)
let find_desc (i : int) = List.assoc (n_of_int i) (List.map (fun (k, d) -> (k, d)) py_descriptions)
let () =
  try while true do
    let line = input_line stdin in
    (match words line with
     | ["D"; i; h] ->
        let d = (try Some (find_desc (int_of_string i)) with Not_found -> None) in
        (match d with
         | None -> print_endline "NODESC"
         | Some d ->
            let b = List.map z_of_int (hex_to_ints (if h = "-" then "" else h)) in
            (match codec_parse d b with
             | None -> print_endline "FAIL"
             | Some (e, n) ->
                let dom = (match codec_parse_dom d b with Some _ -> 1 | None -> 0) in
                let pk = (match codec_pack d e with Some bs -> ints_to_hex (List.map int_of_z bs) | None -> "FAIL") in
                let pk = if pk = "" then "-" else pk in
                let sz = (match codec_sizeof d e with Some k -> string_of_int (int_of_nat k) | None -> "FAIL") in
                Printf.printf "OK n=%d dom=%d pack=%s size=%s env=%s\n" (int_of_nat n) dom pk sz (show_env e)))
     | ["T"; s; ns] ->
        let zz = codec_ts_join (z_of_int (int_of_string s)) (z_of_int (int_of_string ns)) in
        let v = codec_ts_dec zz in
        let sh o = (match o with Some x -> hex_of_z x | None -> "FAIL") in
        Printf.printf "dec=%s enc=%s legacy=%s dom=%d\n" (show_fval v) (sh (codec_ts_enc v)) (sh (codec_ts_enc_legacy v)) (if codec_ts_dom zz then 1 else 0)
     | _ -> print_endline "?")
  done with End_of_file -> ()
