(* line protocol for the C18 / C09 file models.  bytes are hex ("-" = empty); a P1 table is "-" or a comma separated
   list of <frame hex>=<seconds>|<frame hex>=n  (n = no P1 time); frames not listed have no P1 time.
     F <file>                 -> off:len,...                       frames of the sequential scan (SPEC)
     X <file> <p1table>       -> out=<hex|none>;idx=<hex|none>;count=<n>;counts=<ty:c,...>     MODEL of extract
     I <file> <p1table>       -> <hex|none>                        fresh index of the file, saved (SPEC for the .p1i)
     XO <file> <p1table> <save_index 0|1> <prior out|none> <prior idx|none>
                              -> out=<hex|none>;idx=<hex|none>;count=<n>      MODEL of extract over an existing output location *)
let n_of_int (i : int) : n = if i = 0 then N0 else Npos (pos_of_int i)
let int_of_n (x : n) : int = match x with N0 -> 0 | Npos p -> int_of_pos p
let bytes_of_hex h = List.map n_of_int (hex_to_ints (if h = "-" then "" else h))
let hex_of_bytes l = match l with [] -> "-" | _ -> ints_to_hex (List.map int_of_n l)
let opt_hex o = match o with None -> "none" | Some l -> hex_of_bytes l
let parse_table (t : string) : (n list * n option) list =
  if t = "-" then [] else
  List.map (fun kv -> match String.split_on_char '=' kv with
      | [k; "n"] -> (bytes_of_hex k, None)
      | [k; v] -> (bytes_of_hex k, Some (n_of_int (int_of_string v)))
      | _ -> failwith "bad table") (String.split_on_char ',' t)
let p1_of tbl = fun bs -> (match List.assoc_opt bs tbl with Some v -> v | None -> None)
let () =
  try while true do
    let line = input_line stdin in
    (try (match words line with
     | ["F"; f] ->
        let fs = file_frames (bytes_of_hex f) in
        let s = String.concat "," (List.map (fun (o, bs) -> Printf.sprintf "%d:%d" (int_of_nat o) (List.length bs)) fs) in
        print_endline (if s = "" then "-" else s)
     | ["X"; f; t] ->
        let r = extract (p1_of (parse_table t)) (bytes_of_hex f) in
        print_endline (Printf.sprintf "out=%s;idx=%s;count=%d;counts=%s" (opt_hex r.xr_output) (opt_hex r.xr_index) (int_of_n r.xr_count)
                         (String.concat "," (List.map (fun (k, v) -> Printf.sprintf "%d:%d" (int_of_n k) (int_of_n v)) r.xr_counts)))
     | ["XO"; f; t; si; po; pi] ->
        let opt h = if h = "none" then None else Some (bytes_of_hex h) in
        let ((o, i), c) = extract_over (p1_of (parse_table t)) (si = "1") (opt po, opt pi) (bytes_of_hex f) in
        print_endline (Printf.sprintf "out=%s;idx=%s;count=%d" (opt_hex o) (opt_hex i) (int_of_n c))
     | ["I"; f; t] -> print_endline (opt_hex (fresh_saved (p1_of (parse_table t)) (bytes_of_hex f)))
     | _ -> print_endline "?")
     with e -> print_endline ("ERR " ^ Printexc.to_string e))
  done with End_of_file -> ()
