(* token parser and printers (same text in c10_driver.ml and c11_driver.ml) *)
let toks : string list ref = ref []
let next_tok () = match !toks with [] -> failwith "eol" | t :: r -> toks := r; t
let zt () = z_of_int (int_of_string (next_tok ()))
let zopt () = let t = next_tok () in if t = "-" then None else Some (z_of_int (int_of_string t))
let bt () = next_tok () = "1"
let rec times n f = if n <= 0 then [] else let x = f () in x :: times (n - 1) f
let zlist_opt () = let t = next_tok () in if t = "-" then None else Some (times (int_of_string t) zt)
let p_fx () = if next_tok () = "L" then legacy else fixed
let p_file () =
  let fsize = zt () in
  let n = int_of_string (next_tok ()) in
  let ms = times n (fun () -> let o = zt () in let s = zt () in let ty = zt () in let sr = zt () in let t = zopt () in
                              { m_off = o; m_size = s; m_type = ty; m_src = sr; m_time = t }) in
  { f_msgs = ms; f_size = fsize }
let p_cfg () =
  let mb = zopt () in let h = bt () in let p = bt () in let b = bt () in let o = bt () in let i = bt () in
  { c_max_bytes = mb; c_hdr = h; c_pay = p; c_bytes = b; c_offset = o; c_index = i; c_has_range = false }
let p_range_body () =
  let s = zopt () in let e = zopt () in let a = bt () in let t0 = zopt () in
  { tr_start = s; tr_end = e; tr_abs = a; tr_t0 = t0 }
let p_range () = let t = next_tok () in if t = "-" then None else Some (p_range_body ())
let p_hint () = match next_tok () with "i" -> Some IncludeNans | "a" -> Some AllNans | "r" -> Some RemoveNans | _ -> None
let err_s = function IndexError -> "IndexError" | ValueError -> "ValueError" | UnboundLocalError -> "UnboundLocalError"
                   | Unsupported -> "Unsupported" | InternalError -> "InternalError"
let piece_s = function
  | PHeader m -> "H" ^ string_of_int (int_of_z m.m_off)
  | PPayload m -> "P" ^ string_of_int (int_of_z m.m_off)
  | PBytes (o, s) -> Printf.sprintf "B%d_%d" (int_of_z o) (int_of_z s)
  | POffset o -> "O" ^ string_of_int (int_of_z o)
  | PIndex i -> "I" ^ string_of_int (int_of_z i)
let msg_s (m, ps) = string_of_int (int_of_z m.m_off) ^ ":" ^ String.concat "," (List.map piece_s ps)
(* C11 line protocol:  M|S  F|L  FILE CFG SRCS NOPS op...   (see c10_parse.inc / props/c11.py) *)
let p_op () = match next_tok () with
  | "r" -> OpRead
  | "ft" -> let n = int_of_string (next_tok ()) in OpFilter (KTypes (times n zt))
  | "fs" -> let s = zopt () in let e = zopt () in let h = p_hint () in OpFilter (KTimeSlice (s, e, h))
  | "fr" -> OpFilter (KTimeRange (p_range_body ()))
  | "fi" -> let a = zopt () in let b = zopt () in let st = zopt () in OpFilter (KIdxSlice (a, b, st))
  | "u" -> OpRemoveUntimed
  | "c" -> OpClear
  | "w" -> OpRewind
  | "s" -> let i = zt () in let fl = bt () in OpSeek (i, fl)
  | "e" -> OpSeekEof
  | t -> failwith ("op " ^ t)
let res_s = function
  | RMsg (m, ps) -> "MSG " ^ msg_s (m, ps)
  | RStop -> "STOP"
  | RErr e -> "ERR " ^ err_s e
  | RDone -> "DONE"
let () =
  try while true do
    let line = input_line stdin in
    toks := words line;
    (try
      let cmd = next_tok () in
      let fx = p_fx () in
      let f = p_file () in
      let c = p_cfg () in
      let srcs = zlist_opt () in
      let n = int_of_string (next_tok ()) in
      let ops = times n p_op in
      (match cmd with
       | "M" ->
          (match construct fx c f srcs None None with
           | Err e -> print_endline ("CERR " ^ err_s e)
           | Ok r0 ->
              let r = ref r0 in
              let outs = List.map (fun o ->
                  let (r', x) = step_op fx c f !r o in
                  r := r';
                  Printf.sprintf "%s @%d,%d" (res_s x) (int_of_z r'.r_next) (List.length r'.r_index.fi_data)) ops in
              print_endline (String.concat " | " outs))
       | "S" ->
          let orig = index_of_file f c.c_max_bytes in
          let s = ref { cs_orig = orig; cs_cur = orig; cs_pos = z_of_int (-1); cs_srcs = srcs } in
          let outs = List.map (fun o -> let (s', x) = spec_step c f !s o in s := s';
                                Printf.sprintf "%s @%d" (res_s x) (List.length s'.cs_cur.fi_data)) ops in
          print_endline (String.concat " | " outs)
       | _ -> print_endline "?")
    with Failure m -> print_endline ("?" ^ m))
  done with End_of_file -> ()
