(* C19 exact SPEC runner.  One line in, one line out.
   in : <H|Y> <Hnum> <Hden> <xnum> <xden>     hexadecimal integers, numerators may carry a leading '-'
        H = Heading_spec_heading (yaw -> heading), Y = Heading_spec_yaw (heading -> yaw); first fraction is the
        half turn (180 for degrees, a rational approximation of pi for radians), second the input angle
   out: <num> <den>                            the exact result as a reduced fraction, same notation *)
let pos_of_hex (s : string) : positive =
  let p = ref None in
  String.iter (fun c ->
    let d = int_of_string ("0x" ^ String.make 1 c) in
    for i = 3 downto 0 do
      let b = (d lsr i) land 1 in
      p := (match !p with
            | None -> if b = 1 then Some XH else None
            | Some q -> Some (if b = 1 then XI q else XO q))
    done) s;
  match !p with Some q -> q | None -> failwith "zero where a positive is required"
let z_of_hex (s : string) : z =
  let neg = String.length s > 0 && s.[0] = '-' in
  let body = if neg then String.sub s 1 (String.length s - 1) else s in
  if String.for_all (fun c -> c = '0') body then Z0
  else if neg then Zneg (pos_of_hex body) else Zpos (pos_of_hex body)
let hex_of_pos (p : positive) : string =
  (* collect bits least significant first *)
  let rec bits p acc = match p with XH -> 1 :: acc | XO q -> bits q (0 :: acc) | XI q -> bits q (1 :: acc) in
  let msb_first = bits p [] in
  let n = List.length msb_first in
  let pad = (4 - n mod 4) mod 4 in
  let l = List.init pad (fun _ -> 0) @ msb_first in
  let buf = Buffer.create 16 in
  let rec go = function
    | a :: b :: c :: d :: r -> Buffer.add_string buf (Printf.sprintf "%x" (8*a + 4*b + 2*c + d)); go r
    | _ -> () in
  go l; Buffer.contents buf
let hex_of_z (x : z) : string = match x with Z0 -> "0" | Zpos p -> hex_of_pos p | Zneg p -> "-" ^ hex_of_pos p
let () =
  try while true do
    let line = input_line stdin in
    (match words line with
     | [c; hn; hd; xn; xd] when c = "H" || c = "Y" ->
        let h = { qnum = z_of_hex hn; qden = pos_of_hex hd } and x = { qnum = z_of_hex xn; qden = pos_of_hex xd } in
        let r = if c = "H" then heading_spec_heading h x else heading_spec_yaw h x in
        print_endline (hex_of_z r.qnum ^ " " ^ hex_of_pos r.qden)
     | _ -> print_endline "?")
  done with End_of_file -> ()
