open C08_x
(* (ocaml/conv.ml is not prepended: it needs the extracted Z type, which this model does not use) *)
let rec pos_of_int (n : int) : positive =
  if n = 1 then XH else if n land 1 = 1 then XI (pos_of_int (n lsr 1)) else XO (pos_of_int (n lsr 1))
let rec int_of_pos (p : positive) : int =
  match p with XH -> 1 | XO q -> 2 * int_of_pos q | XI q -> 2 * int_of_pos q + 1
let words (s : string) : string list = List.filter (fun w -> w <> "") (String.split_on_char ' ' s)
(* C08 line protocol (one line in, one JSON line out):
     RUN <cfg> <READ> <MAX> <threads,…> <filehex|-> <oracle|->
   cfg    = cur | legacy | six 0/1 flags (lencheck timeguard wcclamp sizewide payslice reportall)
   oracle = comma separated  md5hex:numhex/denhex  |  md5hex:-      (P1 stamp of (type, version, payload), see c08_impl.py)
            or the word none (no message has a P1 time)
   output = {"spec":[[t|null,type,off,idx],…],"runs":{"<W>":[…] | {"raise":"ExcType"}}}  or {"error":…} *)
let n_of_int (i : int) : n = if i = 0 then N0 else Npos (pos_of_int i)
let int_of_n (x : n) : int = match x with N0 -> 0 | Npos p -> int_of_pos p
let byte_tab : n array = Array.init 256 n_of_int

let bytes_of_hex (h : string) : n list =
  let len = String.length h / 2 in
  let hv c = match c with '0'..'9' -> Char.code c - 48 | 'a'..'f' -> Char.code c - 87 | 'A'..'F' -> Char.code c - 55 | _ -> failwith "hex" in
  let rec go i acc = if i < 0 then acc else go (i - 1) (byte_tab.(16 * hv h.[2 * i] + hv h.[2 * i + 1]) :: acc) in
  go (len - 1) []

(* arbitrary-size hex numeral -> N (most significant digit first) *)
let n_of_hex (h : string) : n =
  let bits = Buffer.create 64 in
  String.iter (fun c ->
    let v = (match c with '0'..'9' -> Char.code c - 48 | 'a'..'f' -> Char.code c - 87 | 'A'..'F' -> Char.code c - 55 | _ -> failwith "hexnum") in
    for k = 3 downto 0 do Buffer.add_char bits (if (v lsr k) land 1 = 1 then '1' else '0') done) h;
  let s = Buffer.contents bits in
  (* s is MSB first; build positive from the most significant 1 downwards *)
  let n = String.length s in
  let rec first i = if i >= n then -1 else if s.[i] = '1' then i else first (i + 1) in
  let f = first 0 in
  if f < 0 then N0 else begin
    let p = ref XH in
    for i = f + 1 to n - 1 do p := (if s.[i] = '1' then XI !p else XO !p) done;
    (* the loop above prepends in the wrong direction: XI/XO wrap the *more significant* part, which is what we want:
       reading MSB→LSB, each new bit becomes the new least significant constructor around the value so far *)
    Npos !p
  end

exception Oracle_miss of string

let make_ptime (tbl : (string, (n * n) option) Hashtbl.t) : n -> n -> n list -> (n * n) option =
  fun ty ver payload ->
    let b = Buffer.create 64 in
    let t = int_of_n ty in
    Buffer.add_char b (Char.chr (t land 255)); Buffer.add_char b (Char.chr ((t lsr 8) land 255));
    Buffer.add_char b (Char.chr ((int_of_n ver) land 255));
    List.iter (fun x -> Buffer.add_char b (Char.chr ((int_of_n x) land 255))) payload;
    let k = Digest.to_hex (Digest.string (Buffer.contents b)) in
    match Hashtbl.find_opt tbl k with
    | Some v -> v
    | None -> raise (Oracle_miss k)

let parse_oracle (s : string) =
  let tbl = Hashtbl.create 64 in
  if s <> "-" then
    List.iter (fun item ->
      match String.split_on_char ':' item with
      | [k; "-"] -> Hashtbl.replace tbl k None
      | [k; v] -> (match String.split_on_char '/' v with
                   | [a; b] -> Hashtbl.replace tbl k (Some (n_of_hex a, n_of_hex b))
                   | _ -> failwith "oracle value")
      | _ -> failwith "oracle item") (String.split_on_char ',' s);
  tbl

let parse_cfg (s : string) =
  match s with
  | "cur" -> fi_cur
  | "legacy" -> fi_legacy
  | _ when String.length s = 6 ->
      let b i = s.[i] = '1' in
      { c_lencheck = b 0; c_timeguard = b 1; c_wcclamp = b 2; c_sizewide = b 3; c_payslice = b 4; c_reportall = b 5 }
  | _ -> failwith "cfg"

let show_entries (es : fi_entry list) : string =
  "[" ^ String.concat "," (List.map (fun e ->
      Printf.sprintf "[%s,%d,%d,%d]" (match e.e_time with None -> "null" | Some t -> string_of_int (int_of_n t))
        (int_of_n e.e_type) (int_of_n e.e_off) (int_of_n e.e_idx)) es) ^ "]"

let err_name e = match e with
  | ErrNegativeDim -> "ValueError" | ErrFromBuffer -> "ValueError"
  | ErrTimeOverflow -> "OverflowError" | ErrSizeOverflow -> "OverflowError" | ErrZeroThreads -> "ZeroDivisionError"

let () =
  try while true do
    let line = input_line stdin in
    (try
      (match words line with
       | ["RUN"; cfg; r; m; ths; fh; orc] ->
          let cfg = parse_cfg cfg in
          let rd = n_of_int (int_of_string r) and mx = n_of_int (int_of_string m) in
          let file = bytes_of_hex (if fh = "-" then "" else fh) in
          let ptime = if orc = "none" then (fun _ _ _ -> None) else make_ptime (parse_oracle orc) in
          let spec = show_entries (fi_spec_x ptime file) in
          let runs = List.map (fun w ->
              let res = (try (match fi_generate rd mx cfg ptime file (n_of_int (int_of_string w)) with
                              | FOk es -> show_entries es
                              | FRaise e -> Printf.sprintf "{\"raise\":\"%s\"}" (err_name e))
                         with Oracle_miss k -> Printf.sprintf "{\"error\":\"oracle-miss %s\"}" k) in
              Printf.sprintf "\"%s\":%s" w res) (String.split_on_char ',' ths) in
          print_endline (Printf.sprintf "{\"spec\":%s,\"runs\":{%s}}" spec (String.concat "," runs))
       | _ -> print_endline "{\"error\":\"bad request\"}")
    with
    | Oracle_miss k -> print_endline (Printf.sprintf "{\"error\":\"oracle-miss %s (spec)\"}" k)
    | Failure s -> print_endline (Printf.sprintf "{\"error\":\"%s\"}" s)
    | Stack_overflow -> print_endline "{\"error\":\"stack overflow in extracted model\"}")
  done with End_of_file -> ()
