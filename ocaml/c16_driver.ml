(* line protocol
   R|L <mask bits or -> <ntd keys, comma separated, or -> <key=shape>*      shape: 1:n | 2:rxc | H:nxaxb.. | 0
       R = model of the current MessageData.to_numpy NaN removal, L = the code before the repair, S = SPEC
       (S needs the time axis: key=shape@axis with axis in 1D,COLS,ROWS,FIRST,NONE)
       cells are numbered row-major; answer: <key=shape:ids>*   (ids of the cells that remain, in order; blocks for H)
   BAD     -> rows of the generated table that violate same-name-same-source / the ntd rule
   OPAQUE  -> same-named rows whose source expression the translator could not normalise *)
type ostring = string
open C16_x
let rec nat_of_int (n : int) : nat = if n <= 0 then O else S (nat_of_int (n - 1))
let rec int_of_nat (n : nat) : int = match n with O -> 0 | S m -> 1 + int_of_nat m
let words (s : ostring) : ostring list = List.filter (fun w -> w <> "") (String.split_on_char ' ' s)
let rec string_of_coq (s : C16_x.string) : ostring = match s with
  | EmptyString -> ""
  | String (Ascii (b0,b1,b2,b3,b4,b5,b6,b7), r) ->
     let bit b k = if b then 1 lsl k else 0 in
     String.make 1 (Char.chr (bit b0 0 + bit b1 1 + bit b2 2 + bit b3 3 + bit b4 4 + bit b5 5 + bit b6 6 + bit b7 7)) ^ string_of_coq r
let coq_of_string (s : ostring) : C16_x.string =
  let r = ref EmptyString in
  for i = String.length s - 1 downto 0 do
    let c = Char.code s.[i] in
    let b k = (c lsr k) land 1 = 1 in
    r := String (Ascii (b 0, b 1, b 2, b 3, b 4, b 5, b 6, b 7), !r)
  done; !r
let split c s = List.filter (fun w -> w <> "") (String.split_on_char c s)
let range a n = List.init n (fun i -> a + i)
let ints_s l = String.concat "," (List.map string_of_int l)
let dims s = List.map int_of_string (split 'x' s)
let parse_arr (sh : ostring) : int np_arr * int list =
  if sh = "0" then (A0, []) else
  match String.split_on_char ':' sh with
  | ["1"; n] -> let n = int_of_string n in (A1 (range 0 n), [n])
  | ["2"; d] -> (match dims d with
      | [r; c] -> (A2 (nat_of_int c, List.init r (fun i -> range (i * c) c)), [r; c])
      | _ -> failwith "shape")
  | ["H"; d] -> (match dims d with
      | n :: rest -> (AH (List.init n (fun i -> [i])), n :: rest)
      | _ -> failwith "shape")
  | _ -> failwith "shape"
let show_arr key (a : int np_arr) (orig : int list) =
  match a with
  | A0 -> key ^ "=0:"
  | A1 d -> Printf.sprintf "%s=1:%d:%s" key (List.length d) (ints_s d)
  | A2 (c, d) -> Printf.sprintf "%s=2:%dx%d:%s" key (List.length d) (int_of_nat c) (ints_s (List.concat d))
  | AH d -> Printf.sprintf "%s=H:%s:%s" key (String.concat "x" (List.map string_of_int (List.length d :: List.tl orig))) (ints_s (List.concat d))
let axis_of = function "1D" -> Some TimeIs1D | "COLS" -> Some TimeIsColumns | "ROWS" -> Some TimeIsRows | "FIRST" -> Some TimeIsFirstOfMany | _ -> None
let show_src = function Each p -> "Each " ^ String.concat "." (List.map string_of_coq p) | First p -> "First " ^ String.concat "." (List.map string_of_coq p) | Opaque -> "Opaque"
let show_row r = Printf.sprintf "%s.%s<-%s%s" (string_of_coq r.r_class) (string_of_coq r.r_key) (show_src r.r_src) (if r.r_ntd then "[ntd]" else "")
let () =
  try while true do
    let line = input_line stdin in
    (try match words line with
     | ["BAD"] -> print_endline (String.concat " | " ("BAD" :: List.map show_row np_bad_rows))
     | ["OPAQUE"] -> print_endline (String.concat " | " ("OPAQUE" :: List.map show_row np_opaque_same_named))
     | c :: mask :: ntd :: arrs when c = "R" || c = "L" || c = "S" ->
        let is_nan = if mask = "-" then [] else List.init (String.length mask) (fun i -> mask.[i] = '1') in
        let ntd = if ntd = "-" then [] else List.map coq_of_string (split ',' ntd) in
        let parsed = List.map (fun a -> match String.split_on_char '=' a with
          | [k; sh] -> (match String.split_on_char '@' sh with
              | [s; ax] -> let (v, o) = parse_arr s in (k, v, o, axis_of ax)
              | [s] -> let (v, o) = parse_arr s in (k, v, o, None)
              | _ -> failwith "arr")
          | _ -> failwith "arr") arrs in
        if c = "S" then begin
          let any = List.exists (fun b -> b) is_nan in
          let pos = np_positions is_nan in
          let outs = List.map (fun (k, v, o, ax) ->
            match ax with
            | Some ax when any && not (np_is_skipped ntd (coq_of_string k)) -> show_arr k (np_select_time pos v ax) o
            | _ -> show_arr k v o) parsed in
          print_endline (String.concat " " outs)
        end else begin
          let entries = List.map (fun (k, v, _, _) -> (coq_of_string k, v)) parsed in
          let res = (if c = "R" then np_remove_nan else np_remove_nan_legacy) is_nan ntd entries in
          print_endline (String.concat " " (List.map2 (fun (k, v) (_, _, o, _) -> show_arr (string_of_coq k) v o) res parsed))
        end
     | _ -> print_endline "?"
    with Failure m -> print_endline ("? " ^ m) | Invalid_argument m -> print_endline ("? " ^ m))
  done with End_of_file -> ()
