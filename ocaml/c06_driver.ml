(* C06 line protocol (MODEL + SPEC), mirrored by harness/py/c06_impl.py and harness/cpp/c06_crc_h.cc
   C <hex|-> <init>          -> "<table-driven crc> <bit-serial crc>"
   S <hex|-> <k>             -> incremental: crc(b[k:], crc(b[:k])) table-driven, bit-serial
   L <hex|-> <len> <init>    -> CalculateCRC(buf, len, init) or OOB
   ENC <seq0> t:v:src:hex,.. -> outputs (hex | ERR) joined by ',' then final counter   (ENCL: pre-fix counter)
   VV <hdrmsg> <off> <buf>.. -> validate_crc of one header on each buffer (pure in the model): outcomes, crc, size
   NOSCAN 0|1                -> leave the S/SE scans out of the analysis (large messages)
   ST lazy|eager <maxpayload> <hex> -> SPEC frames of a stream: <len>#<seq>#<crc>@<off>;...
   HH <op> <op> ...          -> a history on one MessageHeader object (see harness/py/c06_impl.py)
   B <hex>                   -> set the base message; prints its analysis
   E <byteoff> <xorhex> ...  -> analysis of base with each xorhex applied at its byteoff
   HC t:v:seq:src:hex        -> MessageHeader.calculate_crc: "<crc> <payload_size_bytes>" | ERR
   analysis: V=<ok|big|notenough|mismatch|short> I=<1|0|OOB> C1=<crc|OOB> J=<verdict lazy> JE=<verdict eager> S=<frames lazy> SE=<frames eager>
   FM <cap> in E/B analysis is the framer capacity used for the eager scan (payload limit cap-24). *)
open C06_x
let rec pos_of_int (n : int) : positive =
  if n = 1 then XH else if n land 1 = 1 then XI (pos_of_int (n lsr 1)) else XO (pos_of_int (n lsr 1))
let rec int_of_pos (p : positive) : int =
  match p with XH -> 1 | XO q -> 2 * int_of_pos q | XI q -> 2 * int_of_pos q + 1
let rec int_of_nat (n : nat) : int = match n with O -> 0 | S m -> 1 + int_of_nat m
let hex_to_ints (h : string) : int list =
  let n = String.length h / 2 in
  List.init n (fun i -> int_of_string ("0x" ^ String.sub h (2 * i) 2))
let ints_to_hex (l : int list) : string = String.concat "" (List.map (fun b -> Printf.sprintf "%02x" (b land 255)) l)
let words (s : string) : string list = List.filter (fun w -> w <> "") (String.split_on_char ' ' s)
let n_of_int (n : int) : n = if n = 0 then N0 else Npos (pos_of_int n)
let int_of_n (x : n) : int = match x with N0 -> 0 | Npos p -> int_of_pos p
let bytes_of_hex h = List.map n_of_int (hex_to_ints (if h = "-" then "" else h))
let hex_of_bytes l = ints_to_hex (List.map int_of_n l)
let base = ref []
let framer_cap = ref 131072
let noscan = ref false
let show_v = function Accept n -> Printf.sprintf "A%d" (int_of_nat n) | Reject -> "R" | More -> "M"
let show_frames (fs, _) = if fs = [] then "-" else String.concat ";" (List.map (fun (o, b) -> Printf.sprintf "%d:%d" (int_of_nat o) (List.length b)) fs)
let analysis (l : n list) : string =
  let v = match encoder_unpack_validate l with
    | None -> "short" | Some (_, VcOk) -> "ok" | Some (_, VcTooBig) -> "big" | Some (_, VcNotEnough) -> "notenough" | Some (_, VcMismatch) -> "mismatch" in
  let i = match encoder_cpp_is_valid l with None -> "OOB" | Some true -> "1" | Some false -> "0" in
  let c1 = match encoder_cpp_crc1 l with None -> "OOB" | Some c -> string_of_int (int_of_n c) in
  let jl = encoder_judge false true mAX_EXPECTED_SIZE_BYTES in
  let je = encoder_judge true true (n_of_int (!framer_cap - 24)) in
  Printf.sprintf "V=%s I=%s C1=%s J=%s JE=%s S=%s SE=%s" v i c1 (show_v (jl l)) (show_v (je l))
    (if !noscan then "?" else show_frames (scan jl O l)) (if !noscan then "?" else show_frames (scan je O l))
let apply_err (l : n list) (off : int) (x : n list) : n list =
  let rec go i l x = match l, x with
    | _, [] -> l
    | [], _ -> []
    | a :: t, b :: xt -> if i < off then a :: go (i + 1) t x else (match encoder_xor_bytes [a] [b] with [c] -> c | _ -> a) :: go (i + 1) t xt in
  go 0 l x
let parse_call s = match String.split_on_char ':' s with
  | t :: v :: src :: h :: _ -> ({ p_type = n_of_int (int_of_string t); p_version = n_of_int (int_of_string v); p_bytes = bytes_of_hex h }, n_of_int (int_of_string src))
  | _ -> failwith "call"
let () =
  try while true do
    let line = input_line stdin in
    (try (match words line with
     | ["C"; h; init] -> let l = bytes_of_hex h and i = n_of_int (int_of_string init) in
        Printf.printf "%d %d\n" (int_of_n (crc32_from i l)) (int_of_n (crc32_spec_from i l))
     | ["S"; h; k] -> let l = bytes_of_hex h and k = int_of_string k in
        let a = List.filteri (fun i _ -> i < k) l and b = List.filteri (fun i _ -> i >= k) l in
        Printf.printf "%d %d\n" (int_of_n (crc32_from (crc32_from N0 a) b)) (int_of_n (crc32_spec_from (crc32_spec_from N0 a) b))
     | ["L"; h; len; init] -> (match encoder_cpp_crc3 (bytes_of_hex h) (n_of_int (int_of_string len)) (n_of_int (int_of_string init)) with
        | None -> print_endline "OOB" | Some c -> Printf.printf "%d\n" (int_of_n c))
     | [c; s0; calls] when c = "ENC" || c = "ENCL" ->
        let cs = List.map parse_call (String.split_on_char ',' calls) in
        let (outs, s1) = (if c = "ENC" then encoder_run else encoder_run_legacy) (n_of_int (int_of_string s0)) cs in
        Printf.printf "%s %d\n" (String.concat "," (List.map (function None -> "ERR" | Some b -> hex_of_bytes b) outs)) (int_of_n s1)
     | "VV" :: hdr :: off :: bufs ->
        let hb = bytes_of_hex hdr in
        let h = parse_header (List.filteri (fun i _ -> i < 24) hb) in
        let o = n_of_int (int_of_string off) in
        let one b = match encoder_validate_crc h (bytes_of_hex b) o with
          | VcOk -> "ok" | VcTooBig -> "big" | VcNotEnough -> "notenough" | VcMismatch -> "mismatch" in
        Printf.printf "%s %d %d\n" (String.concat "," (List.map one bufs)) (int_of_n h.h_crc) (int_of_n h.h_psize)
     | ["NOSCAN"; b] -> noscan := (b = "1"); print_endline "ok"
     | ["ST"; mode; mx; h] ->
        (* SPEC of a stream: the frames a left-to-right scan accepts: "<len>#<seq>#<crc>@<off>" *)
        let l = bytes_of_hex h in
        let j = encoder_judge (mode = "eager") true (n_of_int (int_of_string mx)) in
        let (fs, _) = scan j O l in
        let le4 b o = let g i = int_of_n (List.nth b (o + i)) in g 0 + 256 * (g 1 + 256 * (g 2 + 256 * g 3)) in
        print_endline (if fs = [] then "-" else String.concat ";" (List.map (fun (o, b) ->
          Printf.sprintf "%d#%d#%d@%d" (List.length b) (le4 b 12) (le4 b 4) (int_of_nat o)) fs))
     | "HH" :: ops ->
        (* a history on ONE MessageHeader object *)
        let h = ref (encoder_new_header N0) in
        let dead = ref false in
        let vcs = function VcOk -> "ok" | VcTooBig -> "big" | VcNotEnough -> "notenough" | VcMismatch -> "mismatch" in
        let nn x = n_of_int (int_of_string x) in
        let one op =
          if !dead then "-" else
          match String.split_on_char ':' op with
          | ["N"; t] -> h := encoder_new_header (nn t); "new"
          | ["S"; v; sq; src] -> h := { !h with h_msgver = nn v; h_seq = nn sq; h_source = nn src }; "set"
          | ["S"; v; sq; src; crc; rsv] -> h := { !h with h_msgver = nn v; h_seq = nn sq; h_source = nn src; h_crc = nn crc; h_reserved = nn rsv }; "set"
          | ["U"; hx] -> (match encoder_unpack_into !h (bytes_of_hex hx) with None -> "short" | Some (h2, v) -> h := h2; vcs v)
          | ["V"; hx; off] -> vcs (encoder_validate_crc !h (bytes_of_hex hx) (nn off))
          | ["C"; hx; _] -> (match encoder_calculate_crc !h (bytes_of_hex hx) with None -> dead := true; "ERR" | Some h2 -> h := h2; string_of_int (int_of_n h2.h_crc))
          | ["P"] -> (match encoder_pack_plain !h with None -> dead := true; "ERR" | Some (h2, b) -> h := h2; hex_of_bytes b)
          | ["Q"; hx; _] -> (match encoder_pack_payload !h (bytes_of_hex hx) with None -> dead := true; "ERR" | Some (h2, b) -> h := h2; hex_of_bytes b)
          | ["B"; hx; off; blen] ->
             (match encoder_pack_payload !h (bytes_of_hex hx) with
              | None -> dead := true; "ERR"
              | Some (h2, b) -> h := h2;
                 let off = int_of_string off and blen = int_of_string blen in
                 let bi = List.map int_of_n b in
                 let n = List.length bi in
                 ints_to_hex (List.init blen (fun i -> if i >= off && i < off + n then List.nth bi (i - off) else 0xEE)))
          | ["F"] -> let x = !h in String.concat "," (List.map (fun v -> string_of_int (int_of_n v))
                       [x.h_reserved; x.h_crc; x.h_proto; x.h_msgver; x.h_type; x.h_seq; x.h_psize; x.h_source])
          | _ -> "?" in
        print_endline (String.concat " " (List.map one ops))
     | ["FM"; c] -> framer_cap := int_of_string c; print_endline "ok"
     | ["B"; h] -> base := bytes_of_hex h; print_endline (analysis !base)
     | "E" :: rest ->
        let rec go l = function off :: x :: t -> go (apply_err l (int_of_string off) (bytes_of_hex x)) t | _ -> l in
        print_endline (analysis (go !base rest))
     | ["HC"; c] -> (match String.split_on_char ':' c with
        | [t; v; sq; src; h] ->
          let hd = { h_sync0 = sYNC0; h_sync1 = sYNC1; h_reserved = N0; h_crc = N0; h_proto = pROTOCOL_VERSION; h_msgver = n_of_int (int_of_string v);
                     h_type = n_of_int (int_of_string t); h_seq = n_of_int (int_of_string sq); h_psize = N0; h_source = n_of_int (int_of_string src) } in
          (match encoder_calculate_crc hd (bytes_of_hex h) with
           | None -> print_endline "ERR"
           | Some h2 -> Printf.printf "%d %d\n" (int_of_n h2.h_crc) (int_of_n h2.h_psize))
        | _ -> print_endline "?")
     | ["ORD"; p] -> Printf.printf "%d\n" (int_of_n (encoder_steps1_fast (pos_of_int (int_of_string p))))
     | _ -> print_endline "?")
    with Failure m -> print_endline ("?" ^ m));
    flush stdout
  done with End_of_file -> ()
