(* line protocol shared with harness/cpp/c07_framer_h.cc:
     [SPEC |LEGACY ]<U|M> <capacity> <align> <op>*      op = D<hex> | R | B<U|M>,<capacity>,<align>
   one output line: segments joined by '|', first the constructor, then one per op:
     C;adv   R;adv   B;adv   D;ret;cbs;decoded;errors;flag;adv
   cbs = '-' or num:hex:ptrmod4 joined by ','   flag = ok | OOBW:i:len | OOBR:i:len | FUEL
   adv = state,next,size,capacity_bytes,has_buffer  *)
let n_of_int i = if i <= 0 then N0 else Npos (pos_of_int i)
let int_of_n = function N0 -> 0 | Npos p -> int_of_pos p
let bytes_of_hex h = List.map n_of_int (hex_to_ints h)
let hex_of_bytes l = ints_to_hex (List.map int_of_n l)
let zeros n = List.init n (fun _ -> N0)
let st_int = function FS_SYNC0 -> 0 | FS_SYNC1 -> 1 | FS_HEADER -> 2 | FS_DATA -> 3
let adv f = let c = f.f_core in
  Printf.sprintf "%d,%d,%d,%d,%d" (st_int c.c_state) (int_of_n c.c_next) (int_of_n c.c_size) (int_of_n c.c_cap) (if f.f_has then 1 else 0)
let cbs evs = if evs = [] then "-" else String.concat "," (List.map (fun (num, bs) -> Printf.sprintf "%d:%s:0" (int_of_n num) (hex_of_bytes bs)) evs)
let user_of m al = if m = "U" then Some (n_of_int al) else None
let parse_op tok =
  match tok.[0] with
  | 'D' -> OpData (bytes_of_hex (String.sub tok 1 (String.length tok - 1)))
  | 'R' -> OpReset
  | 'B' -> (match String.split_on_char ',' (String.sub tok 1 (String.length tok - 1)) with
            | [m; cap; al] -> let cap = int_of_string cap in OpSetBuffer (user_of m (int_of_string al), N0, n_of_int cap, zeros cap)
            | _ -> failwith "bad B")
  | _ -> failwith "bad op"
let tag = function OpData _ -> "D" | OpReset -> "R" | OpSetBuffer _ -> "B"
let run_model legacy m cap al ops =
  let f0 = (if legacy then fe_legacy_construct else fe_construct) (user_of m al) N0 (n_of_int cap) (zeros (cap + 3)) in
  let ncb = ref 0 in
  let out = ref [ "C;" ^ adv f0 ] in
  let rec go f = function
    | [] -> ()
    | o :: rest ->
      (match (if legacy then fe_legacy_op else fe_op) f o with
       | Ok ((f', ret), evs) ->
         (match o with
          | OpData _ -> ncb := !ncb + List.length evs;
            out := Printf.sprintf "D;%d;%s;%d;%d;ok;%s" (int_of_n ret) (cbs evs) 0 0 (adv f') :: !out
          | _ -> out := (tag o ^ ";" ^ adv f') :: !out);
         go f' rest
       | OobWrite (i, l) -> out := Printf.sprintf "D;0;-;0;0;OOBW:%d:%d;-" (int_of_n i) (int_of_n l) :: !out
       | OobRead (i, l) -> out := Printf.sprintf "D;0;-;0;0;OOBR:%d:%d;-" (int_of_n i) (int_of_n l) :: !out
       | OutOfFuel -> out := "D;0;-;0;0;FUEL;-" :: !out)
  in go f0 ops; String.concat "|" (List.rev !out)
let run_spec m cap al ops =
  let s0 = fe_spec_construct (user_of m al) N0 (n_of_int cap) in
  let out = ref [ "C" ] in
  let cnt = ref 0 in
  let rec go s = function
    | [] -> ()
    | o :: rest ->
      let (s', fs) = fe_spec_op s o in
      (match o with
       | OpData _ -> cnt := !cnt + List.length fs;
         out := Printf.sprintf "D;%d;%s;%d" (int_of_n (frames_total fs)) (cbs (List.map fe_event_of fs)) 0 :: !out
       | OpReset -> cnt := 0; out := "R" :: !out
       | OpSetBuffer (_, _, c, _) -> if int_of_n c >= 24 then cnt := 0; out := "B" :: !out);
      go s' rest
  in go s0 ops; String.concat "|" (List.rev !out)
let () =
  try while true do
    let line = input_line stdin in
    (try
      (match words line with
       | "SPEC" :: m :: cap :: al :: ops -> print_endline (run_spec m (int_of_string cap) (int_of_string al) (List.map parse_op ops))
       | "CRC" :: [h] -> Printf.printf "%d\n" (int_of_n (crc32 (bytes_of_hex (if h = "-" then "" else h))))
       | "LEGACY" :: m :: cap :: al :: ops -> print_endline (run_model true m (int_of_string cap) (int_of_string al) (List.map parse_op ops))
       | m :: cap :: al :: ops -> print_endline (run_model false m (int_of_string cap) (int_of_string al) (List.map parse_op ops))
       | _ -> print_endline "?")
    with Failure e -> print_endline ("ERR " ^ e))
  done with End_of_file -> ()
