(* line protocol:  <M|S> <N|D|I> <*|l:t1,t2,..> <entry>*     entry = type/has_p1/t:id,t:id,...  (or "-" for no messages)
   output:         OK <U | R:K<t>:<id>,F<t>,...>*   |   INDEXERR          M = model of the code, S = spec *)
let split c s = List.filter (fun w -> w <> "") (String.split_on_char c s)
let parse_msgs s = if s = "-" then [] else
  List.map (fun p -> match String.split_on_char ':' p with
    | [t; i] -> (z_of_int (int_of_string t), nat_of_int (int_of_string i))
    | _ -> failwith "msg") (split ',' s)
let parse_entry s = match String.split_on_char '/' s with
  | [ty; h; ms] -> { e_type = nat_of_int (int_of_string ty); e_has_p1 = (h = "1"); e_msgs = parse_msgs ms }
  | _ -> failwith "entry"
let parse_mt s = if s = "*" then None else
  Some (List.map (fun t -> nat_of_int (int_of_string t)) (split ',' (String.sub s 2 (String.length s - 2))))
let parse_mode s = match s with "N" -> NONE | "D" -> DROP | "I" -> INSERT | _ -> failwith "mode"
let show_item = function
  | Kept (t, i) -> Printf.sprintf "K%d:%d" (int_of_z t) (int_of_nat i)
  | Fresh t -> Printf.sprintf "F%d" (int_of_z t)
let show_outcome = function
  | Untouched -> "U"
  | Replaced l -> "R:" ^ String.concat "," (List.map show_item l)
let show_outs l = String.concat " " ("OK" :: List.map show_outcome l)
let () =
  try while true do
    let line = input_line stdin in
    (try match words line with
     | c :: m :: mt :: es ->
        let mode = parse_mode m and mt = parse_mt mt and es = List.map parse_entry es in
        if c = "M" then print_endline (match ta_align mode mt es with Ok l -> show_outs l | IndexErr -> "INDEXERR")
        else if c = "S" then print_endline (show_outs (ta_spec mode mt es))
        else print_endline "?"
     | _ -> print_endline "?"
    with Failure _ -> print_endline "?")
  done with End_of_file -> ()
