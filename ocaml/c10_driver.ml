(* token parser and printers (same text in c10_driver.ml and c11_driver.ml) *)
let toks : string list ref = ref []
let next_tok () = match !toks with [] -> failwith "eol" | t :: r -> toks := r; t
let zt () = z_of_int (int_of_string (next_tok ()))
let zopt () = let t = next_tok () in if t = "-" then None else Some (z_of_int (int_of_string t))
let bt () = next_tok () = "1"
let rec times n f = if n <= 0 then [] else let x = f () in x :: times (n - 1) f
let zlist_opt () = let t = next_tok () in if t = "-" then None else Some (times (int_of_string t) zt)
let p_fx () = if next_tok () = "L" then legacy else fixed
let p_file () =
  let fsize = zt () in
  let n = int_of_string (next_tok ()) in
  let ms = times n (fun () -> let o = zt () in let s = zt () in let ty = zt () in let sr = zt () in let t = zopt () in
                              { m_off = o; m_size = s; m_type = ty; m_src = sr; m_time = t }) in
  { f_msgs = ms; f_size = fsize }
let p_cfg () =
  let mb = zopt () in let h = bt () in let p = bt () in let b = bt () in let o = bt () in let i = bt () in
  { c_max_bytes = mb; c_hdr = h; c_pay = p; c_bytes = b; c_offset = o; c_index = i; c_has_range = false }
let p_range_body () =
  let s = zopt () in let e = zopt () in let a = bt () in let t0 = zopt () in
  { tr_start = s; tr_end = e; tr_abs = a; tr_t0 = t0 }
let p_range () = let t = next_tok () in if t = "-" then None else Some (p_range_body ())
let p_hint () = match next_tok () with "i" -> Some IncludeNans | "a" -> Some AllNans | "r" -> Some RemoveNans | _ -> None
let err_s = function IndexError -> "IndexError" | ValueError -> "ValueError" | UnboundLocalError -> "UnboundLocalError"
                   | Unsupported -> "Unsupported" | InternalError -> "InternalError"
let piece_s = function
  | PHeader m -> "H" ^ string_of_int (int_of_z m.m_off)
  | PPayload m -> "P" ^ string_of_int (int_of_z m.m_off)
  | PBytes (o, s) -> Printf.sprintf "B%d_%d" (int_of_z o) (int_of_z s)
  | POffset o -> "O" ^ string_of_int (int_of_z o)
  | PIndex i -> "I" ^ string_of_int (int_of_z i)
let msg_s (m, ps) = string_of_int (int_of_z m.m_off) ^ ":" ^ String.concat "," (List.map piece_s ps)
(* C10 line protocol:  M|S|ML  F|L  FILE CFG SRCS TYPES RANGE [SRCS-late]   (see c10_parse.inc / props/c10.py) *)
let show = function
  | Ok l -> String.concat " " ("OK" :: List.map msg_s l)
  | Err e -> "ERR " ^ err_s e
let () =
  try while true do
    let line = input_line stdin in
    toks := words line;
    (try
      let cmd = next_tok () in
      let fx = p_fx () in
      let f = p_file () in
      let c = p_cfg () in
      let srcs = zlist_opt () in
      let types = zlist_opt () in
      let r = p_range () in
      (match cmd with
       | "M" -> print_endline (show (read_log fx c f srcs types r))
       | "S" -> print_endline (show (Ok (spec_read c f srcs types r)))
       | "ML" -> let late = zlist_opt () in print_endline (show (read_log_late_sources fx c f types r late))
       | _ -> print_endline "?")
    with Failure m -> print_endline ("?" ^ m))
  done with End_of_file -> ()
