(* C12 line protocol.  One job per line (J: reader selections given as tables; K: linked mode, the reader is the
   C10/C11 model: every message carries two more fields off size, the file size follows the messages, in both modes times are in eighths of a second):
   J nmsgs (ord type src time-or-N p1 sys dec)... navail (id)... ntr (s-or-N e-or-N abs nsel (ord)...)... nnonnan (ord)... ncalls (call)...
   call = ntypes-or-N (type)... s e abs nsrc-or-N (id)... ign max-or-N p1 sys order bytes idx num keep nan align natypes-or-N (type)...
   Output (one line): per call, tab-separated fields H (outcome after the history so far), F (same call on a fresh
   loader), L (legacy model after the history), S0 (spec message ordinals, discovered sources), S1 (spec, all sources), P (index pre-slice applied), X (index entries dropped by read-time tests);
   calls separated by a double bar *)
let n_of_int i = match z_of_int i with Z0 -> N0 | Zpos p -> Npos p | Zneg _ -> N0
let int_of_n n = match n with N0 -> 0 | Npos p -> int_of_pos p
let toks = ref []
let next () = match !toks with t :: r -> toks := r; t | [] -> failwith "short line"
let next_int () = int_of_string (next ())
let next_bool () = next_int () <> 0
let next_optz () = let t = next () in if t = "N" then None else Some (z_of_int (int_of_string t))
let next_list f = let n = next_int () in List.init n (fun _ -> f ())
let next_optlist f = let t = next () in if t = "N" then None else Some (List.init (int_of_string t) (fun _ -> f ()))
let next_n () = n_of_int (next_int ())
let next_tr () = let s = next_optz () in let e = next_optz () in let ab = next_bool () in { tr_start = s; tr_end = e; tr_abs = ab }
let tscale = ref 1   (* the linked mode counts time in eighths of a second *)
let ots t = match t with None -> "N" | Some z -> string_of_int (int_of_z z / !tscale)
let rid r = match r with
  | RFile m -> string_of_int (int_of_n m.m_ord)
  | RDefault (ty, t) -> Printf.sprintf "d%d@%s" (int_of_n ty) (ots t)
let ids l = String.concat "," (List.map rid l)
let ns l = String.concat "," (List.map (fun n -> string_of_int (int_of_n n)) l)
let show_data d =
  Printf.sprintf "m[%s] np%s idx%s[%s] nb%s%d" (ids d.d_msgs)
    (match d.d_np with None -> "-" | Some rows -> "[" ^ ids rows ^ "]")
    (if d.d_idx_arr then "A" else "L") (ns d.d_idx) (if d.d_bytes_arr then "A" else "L") (List.length d.d_bytes)
let show o = match o with
  | OutDict r -> "D " ^ String.concat " ; " (List.map (fun (t, d) -> string_of_int (int_of_n t) ^ " " ^ show_data d) r)
  | OutOrder d -> "O " ^ show_data d
  | OutUnmodelled -> "UNMODELLED"
let () =
  try while true do
    let line = input_line stdin in
    toks := words line;
    (match next () with
     | ("J" | "K") as mode ->
        let linked = (mode = "K") in
        let geom = ref [] in
        let log = next_list (fun () ->
          let o = next_n () in let ty = next_n () in let src = next_n () in let tm = next_optz () in
          let p1 = next_bool () in let sy = next_bool () in let dec = next_bool () in
          (if linked then begin
             let off = z_of_int (next_int ()) in let size = z_of_int (next_int ()) in
             geom := { m_off = off; m_size = size; m_type0 = z_of_int (int_of_n ty); m_src0 = z_of_int (int_of_n src); m_time0 = tm } :: !geom
           end);
          { m_ord = o; m_type = ty; m_src = src; m_time = tm; m_p1_some = p1; m_sys_some = sy; m_decodes = dec }) in
        let fsize = if linked then z_of_int (next_int ()) else Z0 in
        let avail = next_list next_n in
        let tab = next_list (fun () -> let tr = next_tr () in let sel = next_list next_n in (tr, sel)) in
        let nonnan = next_list next_n in
        let env = if linked then runner_env { f_msgs = List.rev !geom; f_size = fsize } avail
                  else concrete_env log avail tab nonnan in
        let calls = next_list (fun () ->
          let types = next_optlist next_n in let tr = next_tr () in let src = next_optlist next_n in
          let ign = next_bool () in let mx = next_optz () in let p1 = next_bool () in let sy = next_bool () in
          let order = next_bool () in let by = next_bool () in let idx = next_bool () in let num = next_bool () in
          let keep = next_bool () in let nan = next_bool () in let al = next_n () in let at = next_optlist next_n in
          { a_types = types; a_tr = tr; a_src = src; a_ignore = ign; a_max = mx; a_p1 = p1; a_sys = sy; a_order = order;
            a_bytes = by; a_idx = idx; a_numpy = num; a_keep = keep; a_nan = nan; a_align = al; a_atypes = at }) in
        let st = ref init_state and stl = ref init_state in
        let outs = List.map (fun a ->
          let (s', o) = read_gen current env !st a in
          let (sl', ol) = read_gen legacy env !stl a in
          let (_, f) = read_gen current env init_state a in
          st := s'; stl := sl';
          let sp b = String.concat "," (List.map (fun m -> string_of_int (int_of_n m.m_ord)) (spec_messages env a b)) in
          let (ps, nd) = diag env a in
          Printf.sprintf "H=%s\tF=%s\tL=%s\tS0=%s\tS1=%s\tP=%s\tX=%d" (show o) (show f) (show ol) (sp false) (sp true) (b2s ps) (int_of_nat nd)) calls in
        print_endline (String.concat " || " outs)
     | _ -> print_endline "?")
  done with End_of_file -> ()
