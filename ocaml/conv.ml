(* conversions between OCaml ints/strings and the extracted positive/N/Z/nat/list types *)
let rec pos_of_int (n : int) : positive =
  if n = 1 then XH else if n land 1 = 1 then XI (pos_of_int (n lsr 1)) else XO (pos_of_int (n lsr 1))
let rec int_of_pos (p : positive) : int =
  match p with XH -> 1 | XO q -> 2 * int_of_pos q | XI q -> 2 * int_of_pos q + 1
let z_of_int (n : int) : z = if n = 0 then Z0 else if n > 0 then Zpos (pos_of_int n) else Zneg (pos_of_int (-n))
let int_of_z (x : z) : int = match x with Z0 -> 0 | Zpos p -> int_of_pos p | Zneg p -> - (int_of_pos p)
let rec nat_of_int (n : int) : nat = if n <= 0 then O else S (nat_of_int (n - 1))
let rec int_of_nat (n : nat) : int = match n with O -> 0 | S m -> 1 + int_of_nat m
let hex_to_ints (h : string) : int list =
  let n = String.length h / 2 in
  List.init n (fun i -> int_of_string ("0x" ^ String.sub h (2 * i) 2))
let ints_to_hex (l : int list) : string = String.concat "" (List.map (fun b -> Printf.sprintf "%02x" (b land 255)) l)
let words (s : string) : string list = List.filter (fun w -> w <> "") (String.split_on_char ' ' s)
let b2s (b : bool) = if b then "1" else "0"
