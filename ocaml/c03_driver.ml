(* prints every mismatching row computed by the extracted comparison functions on the generated tables *)
open C03_x
let rec int_of_pos (p : positive) : int =
  match p with XH -> 1 | XO q -> 2 * int_of_pos q | XI q -> 2 * int_of_pos q + 1
let int_of_z (x : z) : int = match x with Z0 -> 0 | Zpos p -> int_of_pos p | Zneg p -> - (int_of_pos p)
let char_of_ascii a = match a with
  | Ascii (b0, b1, b2, b3, b4, b5, b6, b7) ->
    Char.chr (List.fold_right (fun b acc -> 2 * acc + (if b then 1 else 0)) [b0; b1; b2; b3; b4; b5; b6; b7] 0)
let rec str s = match s with EmptyString -> "" | String (c, r) -> String.make 1 (char_of_ascii c) ^ str r
let pr tag l =
  List.iter (fun ((((k, s), n), a), b) ->
    Printf.printf "%s\t%s\t%s\t%s\t%d\t%d\n" tag (str k) (str s) (str n) (int_of_z a) (int_of_z b)) l
let () =
  pr "enum" c03_enum_mismatches;
  pr "classification" c03_classification_mismatches;
  pr "registry" c03_registry_mismatches;
  pr "enum@after-use" c03_enum_mismatches_after;
  pr "classification@after-use" c03_classification_mismatches_after;
  pr "registry@after-use" c03_registry_mismatches_after;
  pr "enum@public-import" c03_enum_mismatches_public;
  pr "classification@public-import" c03_classification_mismatches_public;
  pr "registry@public-import" c03_registry_mismatches_public;
  print_endline "END"
