(* C17 line-protocol driver around the extracted model (stateful: one current enumeration, one current mask).
   Integers travel as signed hex of any size; names are ASCII tokens, "~" is the empty name. *)
type mlstring = string
open C17_x
let words (s : mlstring) : mlstring list = List.filter (fun w -> w <> "") (String.split_on_char ' ' s)
let b2s (b : bool) = if b then "1" else "0"
let rec int_of_nat (n : nat) : int = match n with O -> 0 | S m -> 1 + int_of_nat m
let ascii_of_char (c : char) : ascii =
  let n = Char.code c in
  let b i = (n lsr i) land 1 = 1 in
  Ascii (b 0, b 1, b 2, b 3, b 4, b 5, b 6, b 7)
let char_of_ascii (a : ascii) : char =
  match a with Ascii (b0, b1, b2, b3, b4, b5, b6, b7) ->
    let v b i = if b then 1 lsl i else 0 in
    Char.chr (v b0 0 + v b1 1 + v b2 2 + v b3 3 + v b4 4 + v b5 5 + v b6 6 + v b7 7)
let cstr_of_string (s : mlstring) : char list = List.init (String.length s) (String.get s)
let rec coq_of_chars = function [] -> EmptyString | c :: t -> String (ascii_of_char c, coq_of_chars t)
let coq_str s = if s = "~" then EmptyString else coq_of_chars (cstr_of_string s)
let rec ml_str cs = match cs with EmptyString -> "" | String (a, t) -> String.make 1 (char_of_ascii a) ^ ml_str t
let show_name cs = let s = ml_str cs in if s = "" then "~" else s

let pos_of_hex (h : mlstring) : positive option =
  let acc = ref None in
  String.iter (fun c ->
      let d = int_of_string ("0x" ^ String.make 1 c) in
      for i = 3 downto 0 do
        let bit = (d lsr i) land 1 = 1 in
        acc := (match !acc with None -> if bit then Some XH else None
                              | Some q -> Some (if bit then XI q else XO q))
      done) h;
  !acc
(* an integer argument may carry a tag saying as what kind of Python object the implementation receives it
   ("h:" a member object held from an earlier conversion, "f:"/"g:" a member of another enum, "b:" a bool,
   "u:" a numpy integer): the model sees the integer *)
let strip_tag (s : mlstring) : mlstring =
  match String.index_opt s ':' with Some i -> String.sub s (i + 1) (String.length s - i - 1) | None -> s
let z_of_hex (s : mlstring) : z =
  let s = strip_tag s in
  let neg = String.length s > 0 && s.[0] = '-' in
  let h = if neg then String.sub s 1 (String.length s - 1) else s in
  match pos_of_hex h with None -> Z0 | Some p -> if neg then Zneg p else Zpos p
let rec bits_of_pos = function XH -> [1] | XO q -> 0 :: bits_of_pos q | XI q -> 1 :: bits_of_pos q
let hex_of_pos p =
  let rec nibbles = function
    | [] -> []
    | [a] -> [a] | [a; b] -> [a + 2 * b] | [a; b; c] -> [a + 2 * b + 4 * c]
    | a :: b :: c :: d :: t -> (a + 2 * b + 4 * c + 8 * d) :: nibbles t in
  String.concat "" (List.rev_map (Printf.sprintf "%x") (nibbles (bits_of_pos p)))
let hex_of_z = function Z0 -> "0" | Zpos p -> hex_of_pos p | Zneg p -> "-" ^ hex_of_pos p

let split_on c s = if s = "-" || s = "" then [] else String.split_on_char c s
let member_of_tok t = match String.split_on_char ':' t with
  | [n; v] -> (coq_str n, z_of_hex v) | _ -> failwith ("bad member " ^ t)
let members_of s = List.map member_of_tok (split_on ',' s)
let show_member (n, v) = show_name n ^ ":" ^ hex_of_z v
let show_members l = if l = [] then "-" else String.concat "," (List.map show_member l)
let show_err = function ValueError -> "ValueError" | KeyError -> "KeyError" | TypeError -> "TypeError" | AttributeError -> "AttributeError"
let show_out = function
  | OMember (n, v) -> "M " ^ show_name n ^ " " ^ hex_of_z v
  | OErr e -> "X " ^ show_err e
  | OList l -> "L " ^ show_members l
  | OLen n -> "K " ^ string_of_int (int_of_nat n)
let show_sout = function
  | SMember (n, v) -> "SM " ^ show_name n ^ " " ^ hex_of_z v
  | SUnrecognised v -> "SU " ^ hex_of_z v
  | SRefused -> "SR"
  | SList l -> "SL " ^ show_members l
  | SLen n -> "SK " ^ string_of_int (int_of_nat n)

let cur = ref (init [])
let table = ref []
let mask = ref None
(* several classes live side by side in one interpreter: key -> (class body, state, current mask helper) *)
let classes : (mlstring, (string * z) list * enum_state * mask_cls option) Hashtbl.t = Hashtbl.create 16
let cur_key = ref ""
let syn_count = ref 0
let mask_count = ref 0
let spec_only = ref false
let save () = if !cur_key <> "" then Hashtbl.replace classes !cur_key (!table, !cur, !mask)
let load_new key t = save (); cur_key := key; table := t; cur := init t; mask := None

let do_op o =
  if !spec_only then
    print_endline ("- | - | " ^ show_sout (spec !table o) ^ " | " ^ b2s (allowed !table o) ^ " | 0")
  else
  let before = List.length (entries !cur) in
  let (st', r) = step !cur o in
  cur := st';
  print_endline (show_out r ^ " | " ^ show_sout (abstract r) ^ " | " ^ show_sout (spec !table o) ^ " | " ^ b2s (allowed !table o)
                 ^ " | " ^ b2s (List.length (entries st') <> before))

let item_of_tok t =
  let rest = String.sub t 1 (String.length t - 1) in
  if t.[0] = 'n' then IName (coq_str rest) else IVal (z_of_hex rest)

let () =
  try while true do
    let line = input_line stdin in
    (try
      (match words line with
       | ["E"; k] -> (match table_of (coq_str k) with
                      | Some t -> load_new k t;
                                  print_endline ("ok " ^ string_of_int (List.length t) ^ " " ^ b2s (table_ok t))
                      | None -> load_new k []; print_endline "none")
       | ["SW"; k] -> (save ();
                       match Hashtbl.find_opt classes k with
                       | Some (t, st, m) -> cur_key := k; table := t; cur := st; mask := m;
                                            print_endline ("ok " ^ string_of_int (List.length t) ^ " " ^ b2s (table_ok t))
                       | None -> print_endline "none")
       | ["EM"] -> (match !mask with
                    | Some m -> incr mask_count; let t = m.m_entries in
                                load_new ("mask" ^ string_of_int !mask_count) t;
                                print_endline ("ok " ^ string_of_int (List.length t) ^ " " ^ b2s (table_ok t))
                    | None -> print_endline "nomask")
       | ["SO"; f] -> spec_only := (f = "1"); print_endline "ok"
       | ["HC"] -> print_endline "skip"
       | ["AB"; v; s] -> do_op (OpCall (z_of_hex v, s = "1"))
       | ["GA"; n] -> do_op (OpGetName (coq_str n))
       | ["T"; ms] -> let t = members_of ms in incr syn_count; load_new ("syn" ^ string_of_int !syn_count) t;
                      print_endline ("ok " ^ string_of_int (List.length t) ^ " " ^ b2s (table_ok t))
       | ["C"; v; s] | ["C"; v; s; _] -> do_op (OpCall (z_of_hex v, s = "1"))
       | ["N"; n; s] -> do_op (OpCallName (coq_str n, s = "1"))
       | ["G"; n] -> do_op (OpGetName (coq_str n))
       | ["I"; v] -> do_op (OpGetInt (z_of_hex v))
       | ["F"; n] -> do_op (OpFromStringCI (coq_str n))
       | ["IT"; vs] -> do_op (OpIterDuring (List.map z_of_hex (split_on ',' vs)))
       | ["RIT"; vs] -> do_op (OpReversedDuring (List.map z_of_hex (split_on ',' vs)))
       | ["L"] -> do_op OpIter
       | ["K"] -> do_op OpLen
       | ["R"] -> do_op OpReversed
       | ["RL"] -> print_endline ("L " ^ show_members (reversed_legacy !cur))
       | ["ST"] -> print_endline ("L " ^ show_members (entries !cur))
       | ["MK"; off; db; pred; base] ->
          let p = if pred = "*" then (fun _ -> true)
                  else (let ok = List.map z_of_hex (split_on ',' pred) in fun (m : (string * z)) -> List.mem (snd m) ok) in
          (match make_mask !cur (z_of_hex off) (db = "1") p (members_of base) with
           | Inl m -> mask := Some m;
                      print_endline ("ok " ^ hex_of_z m.m_offset ^ " " ^ show_members m.m_values ^ " " ^ show_members m.m_entries)
           | Inr e -> mask := None; print_endline ("X " ^ show_err e))
       | ["B"; items] ->
          (match !mask with None -> print_endline "nomask" | Some m ->
            (match to_bitmask m (List.map item_of_tok (split_on ',' items)) with
             | Inl z -> print_endline ("Z " ^ hex_of_z z) | Inr e -> print_endline ("X " ^ show_err e)))
       | ["V"; z] ->
          (match !mask with None -> print_endline "nomask" | Some m ->
            (match to_values m (z_of_hex z) with
             | Inl l -> print_endline ("L " ^ show_members l) | Inr e -> print_endline ("X " ^ show_err e)))
       | ["A"; v; s] -> do_op (OpCall (z_of_hex v, s = "1"))
       | ["P"; v; s] -> do_op (OpCall (z_of_hex v, s = "1"))
       | ["RT"; items] ->
          (match !mask with None -> print_endline "nomask" | Some m ->
            let its = List.map item_of_tok (split_on ',' items) in
            let sp = "SL " ^ show_members (spec_roundtrip_items m.m_values its) in
            (match roundtrip m its with
             | Inl l -> print_endline ("L " ^ show_members l ^ " | " ^ sp ^ " | " ^ b2s (rt_pre m its))
             | Inr e -> print_endline ("X " ^ show_err e ^ " | " ^ sp ^ " | " ^ b2s (rt_pre m its))))
       | ["MR"; k; _] ->
          (match real_mask (coq_str k), real_mask_enum (coq_str k) with
           | Some (Inl m), Some en ->
              (match table_of en with Some t -> load_new (ml_str en) t | None -> load_new (ml_str en) []);
              mask := Some m;
              print_endline ("ok " ^ hex_of_z m.m_offset ^ " " ^ show_members m.m_values ^ " " ^ show_members m.m_entries)
           | Some (Inr e), _ -> mask := None; print_endline ("X " ^ show_err e)
           | _, _ -> mask := None; print_endline "none")
       | ["RS"; vs] ->
          (match !mask with None -> print_endline "nomask" | Some m ->
            print_endline ("L " ^ show_members (spec_roundtrip m.m_values (List.map z_of_hex (split_on ',' vs)))))
       | _ -> print_endline "?")
    with Failure m -> print_endline ("driver-error " ^ m))
  done with End_of_file -> ()
