(* prints every mismatching row computed by the extracted layout comparison on the generated tables *)
open C02_x
let rec int_of_nat (n : nat) : int = match n with O -> 0 | S m -> 1 + int_of_nat m
let char_of_ascii a = match a with
  | Ascii (b0, b1, b2, b3, b4, b5, b6, b7) ->
    Char.chr (List.fold_right (fun b acc -> 2 * acc + (if b then 1 else 0)) [b0; b1; b2; b3; b4; b5; b6; b7] 0)
let rec str s = match s with EmptyString -> "" | String (c, r) -> String.make 1 (char_of_ascii c) ^ str r
let () =
  List.iter (fun (path, ((((k, s), n), a), b)) ->
    Printf.printf "layout@%s\t%s\t%s\t%s\t%d\t%d\n" (str path) (str k) (str s) (str n) (int_of_nat a) (int_of_nat b)) c02_layout_mismatches;
  List.iter (fun s -> Printf.printf "readme\tnot-packed-or-not-aligned4\t%s\t\t0\t0\n" (str s)) c02_readme_violations;
  List.iter (fun s -> Printf.printf "readme\tfloat-member-not-aligned4\t%s\t\t0\t0\n" (str s)) c02_float_violations;
  List.iter (fun r -> Printf.printf "value\t%s\t%s\t%s\t0\t0\n" (str r.v_how) (str r.v_struct) (str r.v_leaf)) c02_value_mismatches;
  print_endline "END"
