(* C13 line protocol (same lines go to harness/py/c13_impl.py, which ignores the mode token).
   <mode> <cmd> ...    mode: M = model of the working tree, L = model of the code before the repairs, S = SPEC
   bound token: N | F<k> | Fi | Fn | T<k> | Tx | Ti        (k = integer number of 1/8 s)
   ARGS = <start> <end> <abs: - 0 1> <t0: - k>
   OPS  = "-" or comma list of: u s n v (messages without P1 time) | p<k> d<k> (P1 time k/8 s) | r (restart)
   R ARGS OPS flags                 construct, apply OPS                         -> bools|state
   I ARGS ARGS inplace OPS          A.intersect(B), apply OPS to the result      -> E | bools|state   (S: X = outside the stated domain)
   A ARGS t0arg twice OPS           make_absolute(t0arg) (twice), apply OPS      -> E | bools|state
   P hex absarg OPS                 parse(str), apply OPS                        -> E | U | bools|state
   PS kind hexA hexB absarg OPS     (S only) the interval the text kind/A/B describes -> U | X | bools
   Q start end ty absarg OPS        parse(tuple)                                 -> E | bools|state
   T ARGS absarg OPS                parse(TimeRange(ARGS), absolute=absarg)      -> E | bools|state
   bools is followed by ";" is_specified() in_range_started() for IMPL and MODEL.
   bound tokens J<k> (Python int), D<k> (numpy.float64), E<k> (numpy.float32), K<k> (numpy.int64) are floats to the model.
   H n ARGS*n STEPS                 a history on n ranges (names 0..n-1; new names are the next integers), STEPS comma list:
        m<i>.<op>            is_in_range(message) / restart() on range i                 -> 0 | 1 | .
        x<i>.<j>.<k>.<ip>    k = i.intersect(j, in_place=ip)                             -> E | . flags
        a<i>.<t>             i.make_absolute(t)                                          -> E | .
        b<i>.<k>.<t>         k = i.make_absolute(t, in_place=False)                      -> E | . flags
        c<i>.<k> d<i>.<k>    k = copy.copy(i) / copy.deepcopy(i)                         -> . flags
        q<i>.<k>.<ab>        k = TimeRange.parse(i, absolute=ab)                         -> E | . flags
      flags: s = the result is the object i itself; o = it is the other operand; M = an operand that must not change did.
      output: step results joined by "," then ";" getters of every name then "|" states of every name joined by "/".
      S: X when a set-up step is applied to a range that has already seen messages (outside the theorems), or when
      the operands do not share one origin on the data. *)
let fail s = failwith ("bad token " ^ s)
let ext_tok s = match s with
  | "i" -> PInf | "n" -> NInf | _ -> Fin (z_of_int (int_of_string s))
let targ_tok s =
  if s = "N" then ANone else
  let r = String.sub s 1 (String.length s - 1) in
  match s.[0] with
  | 'F' | 'J' | 'D' | 'E' | 'K' -> AFloat (ext_tok r)
  | 'T' -> if r = "x" then ATs None else ATs (Some (ext_tok r))
  | _ -> fail s
let ob_tok s = match s with "-" -> None | "0" -> Some false | "1" -> Some true | _ -> fail s
let oz_tok s = if s = "-" || s = "x" then None else Some (z_of_int (int_of_string s))
let args_of a b c d = { a_start = targ_tok a; a_end = targ_tok b; a_abs = ob_tok c; a_t0 = oz_tok d }
let op_tok s =
  match s.[0] with
  | 'u' | 's' | 'n' | 'v' -> Msg Untimed
  | 'p' | 'd' -> Msg (Timed (z_of_int (int_of_string (String.sub s 1 (String.length s - 1)))))
  | 'r' -> Restart
  | _ -> fail s
let ops_tok s = if s = "-" then [] else List.map op_tok (String.split_on_char ',' s)
let bools l = if l = [] then "-" else String.concat "" (List.map b2s l)
let show_ext e = match e with NInf -> "-inf" | PInf -> "inf" | Fin z -> string_of_int (int_of_z z)
let show_oe o = match o with None -> "None" | Some e -> show_ext e
let show_state r =
  Printf.sprintf "%s %s %s %s %s %s" (b2s r.started) (b2s r.ended)
    (match r.t0 with None -> "None" | Some z -> string_of_int (int_of_z z)) (show_oe r.start) (show_oe r.stop) (b2s r.absolute)
let rec map2 f a b = match a, b with x :: a', y :: b' -> f x y :: map2 f a' b' | _, _ -> []
let getters r = b2s r.specified ^ b2s r.started
let show_run f r ops = let (bs, r') = run_gen f r ops in bools bs ^ ";" ^ getters r' ^ "|" ^ show_state r'
let ints_of s = List.map int_of_string (String.split_on_char '.' s)
let rec take n l = if n = 0 then [] else match l with x :: t -> x :: take (n - 1) t | [] -> []
let rec drop n l = if n = 0 then l else match l with _ :: t -> drop (n - 1) t | [] -> []
let rec group4 l = match l with a :: b :: c :: d :: t -> args_of a b c d :: group4 t | _ -> []
exception Outside
(* ---- histories: MODEL ---- *)
let history_model f n toks steps =
  let cells = Hashtbl.create 8 and names = Hashtbl.create 8 in
  List.iteri (fun i a -> Hashtbl.replace cells i (init_gen f a); Hashtbl.replace names i i) (group4 toks);
  let ncell = ref n in
  let get i = Hashtbl.find cells (Hashtbl.find names i) in
  let set i v = Hashtbl.replace cells (Hashtbl.find names i) v in
  let fresh_cell k v = Hashtbl.replace cells !ncell v; Hashtbl.replace names k !ncell; incr ncell in
  let known st =
    let rest = String.sub st 1 (String.length st - 1) in
    let f = String.split_on_char '.' rest in
    Hashtbl.mem names (int_of_string (List.hd f)) && (st.[0] <> 'x' || Hashtbl.mem names (int_of_string (List.nth f 1))) in
  let out = List.map (fun st ->
    let c = st.[0] and rest = String.sub st 1 (String.length st - 1) in
    if not (known st) then "~" else
    match c with
    | 'm' ->
       let dot = String.index rest '.' in
       let i = int_of_string (String.sub rest 0 dot) and o = String.sub rest (dot + 1) (String.length rest - dot - 1) in
       (match op_tok o with
        | Restart -> set i (restart (get i)); "."
        | Msg m -> let (r', b) = is_in_range_gen f (get i) m in set i r'; b2s b)
    | 'x' -> (match ints_of rest with
              | [i; j; k; ip] ->
                 (match intersect_gen f (get i) (get j) with
                  | ValueError -> "E"
                  | Ok r -> if ip = 1 then (set i r; Hashtbl.replace names k (Hashtbl.find names i); ".s") else (fresh_cell k r; "."))
              | _ -> fail st)
    | 'a' -> let dot = String.index rest '.' in
             let i = int_of_string (String.sub rest 0 dot) and t = oz_tok (String.sub rest (dot + 1) (String.length rest - dot - 1)) in
             (match make_absolute_gen f (get i) t with ValueError -> "E" | Ok r -> set i r; ".")
    | 'b' -> (match String.split_on_char '.' rest with
              | [i; k; t] -> (match make_absolute_gen f (get (int_of_string i)) (oz_tok t) with
                              | ValueError -> "E" | Ok r -> fresh_cell (int_of_string k) r; ".")
              | _ -> fail st)
    | 'c' | 'd' -> (match ints_of rest with [i; k] -> fresh_cell k (get i); "." | _ -> fail st)
    | 'q' -> (match String.split_on_char '.' rest with
              | [i; k; ab] -> (match parse_obj (get (int_of_string i)) (ob_tok ab) with
                               | ValueError -> "E"
                               | Ok _ -> Hashtbl.replace names (int_of_string k) (Hashtbl.find names (int_of_string i)); ".s")
              | _ -> fail st)
    | _ -> fail st) steps in
  let keys = List.sort compare (Hashtbl.fold (fun k _ acc -> k :: acc) names []) in
  let all = List.map get keys in
  String.concat "," out ^ ";" ^ String.concat "" (List.map getters all) ^ "|" ^ String.concat "/" (List.map show_state all)
(* ---- histories: SPEC.  A range is the conjunction of the intervals it was built from ---- *)
type scell = { mutable leaves : args list; mutable kabs : bool; mutable st0 : z option; mutable t0s : z list;
               mutable used : bool; mutable sops : op list; mutable outs : int list }
let history_spec n toks steps =
  let cells = Hashtbl.create 8 and names = Hashtbl.create 8 in
  List.iteri (fun i a ->
    let v = describe a in
    Hashtbl.replace cells i { leaves = [a]; kabs = v.iabs; st0 = v.org; t0s = (match v.org with Some z -> [z] | None -> []);
                              used = false; sops = []; outs = [] };
    Hashtbl.replace names i i) (group4 toks);
  let ncell = ref n in
  let get i = Hashtbl.find cells (Hashtbl.find names i) in
  let fresh_cell k c = Hashtbl.replace cells !ncell c; Hashtbl.replace names k !ncell; incr ncell in
  let addt l t = if List.mem t l then l else t :: l in
  let res = Array.make (List.length steps) "." in
  let known st =
    let rest = String.sub st 1 (String.length st - 1) in
    let f = String.split_on_char '.' rest in
    Hashtbl.mem names (int_of_string (List.hd f)) && (st.[0] <> 'x' || Hashtbl.mem names (int_of_string (List.nth f 1))) in
  List.iteri (fun idx st ->
    let c = st.[0] and rest = String.sub st 1 (String.length st - 1) in
    if not (known st) then res.(idx) <- "~" else
    match c with
    | 'm' ->
       let dot = String.index rest '.' in
       let i = int_of_string (String.sub rest 0 dot) and o = String.sub rest (dot + 1) (String.length rest - dot - 1) in
       let cl = get i in
       cl.sops <- op_tok o :: cl.sops;
       (match op_tok o with Msg _ -> cl.used <- true; cl.outs <- idx :: cl.outs | Restart -> ())
    | 'x' -> (match ints_of rest with
              | [i; j; k; ip] ->
                 let a = get i and b = get j in
                 if a.used || b.used then raise Outside;
                 if a.kabs <> b.kabs && a.st0 = None && b.st0 = None then res.(idx) <- "E"
                 else begin
                   let t0 = (match a.st0 with Some z -> Some z | None -> b.st0) in
                   let ts = List.fold_left addt a.t0s b.t0s in
                   (* a converted relative operand uses its own t0, else the one donated by the other *)
                   let ts = if a.kabs <> b.kabs then (match (if a.kabs then (match b.st0 with Some z -> Some z | None -> a.st0) else (match a.st0 with Some z -> Some z | None -> b.st0)) with Some z -> addt ts z | None -> ts) else ts in
                   let nc = { leaves = a.leaves @ b.leaves; kabs = a.kabs || b.kabs; st0 = t0; t0s = ts; used = false; sops = []; outs = [] } in
                   if ip = 1 then (a.leaves <- nc.leaves; a.kabs <- nc.kabs; a.st0 <- nc.st0; a.t0s <- nc.t0s;
                                   Hashtbl.replace names k (Hashtbl.find names i); res.(idx) <- ".s")
                   else fresh_cell k nc
                 end
              | _ -> fail st)
    | 'a' | 'b' ->
       let parts = String.split_on_char '.' rest in
       let i, k, t = (match c, parts with
                      | 'a', [i; t] -> int_of_string i, -1, oz_tok t
                      | 'b', [i; k; t] -> int_of_string i, int_of_string k, oz_tok t
                      | _ -> fail st) in
       let a = get i in
       if a.used then raise Outside;
       let t' = (match a.st0 with Some z -> Some z | None -> t) in
       if (not a.kabs) && t' = None then res.(idx) <- "E"
       else begin
         let ts = (match t' with Some z -> addt a.t0s z | None -> a.t0s) in
         if c = 'a' then (a.st0 <- t'; a.t0s <- ts; a.kabs <- true)
         else fresh_cell k { leaves = a.leaves; kabs = true; st0 = t'; t0s = ts; used = false; sops = []; outs = [] }
       end
    | 'c' | 'd' -> (match ints_of rest with
                    | [i; k] -> let a = get i in if a.used then raise Outside;
                                fresh_cell k { leaves = a.leaves; kabs = a.kabs; st0 = a.st0; t0s = a.t0s; used = false; sops = []; outs = [] }
                    | _ -> fail st)
    | 'q' -> (match String.split_on_char '.' rest with
              | [i; k; ab] -> let a = get (int_of_string i) in
                              (match ob_tok ab with
                               | Some b when b <> a.kabs -> res.(idx) <- "E"
                               | _ -> Hashtbl.replace names (int_of_string k) (Hashtbl.find names (int_of_string i)); res.(idx) <- ".s")
              | _ -> fail st)
    | _ -> fail st) steps;
  Hashtbl.iter (fun _ cl ->
    let ops = List.rev cl.sops in
    if ops <> [] then begin
      if not (nondecr None ops) then raise Outside;
      (match cl.t0s with
       | _ :: _ :: _ -> raise Outside
       | [t] -> (match first_timed ops with
                 | Some f when f <> t && List.exists (fun a -> let v = describe a in (not v.iabs) && v.org = None) cl.leaves -> raise Outside
                 | _ -> ())
       | [] -> ());
      let vs = List.map (fun a -> spec_run (describe a) ops) cl.leaves in
      let v = List.fold_left (fun acc x -> map2 (&&) acc x) (List.hd vs) (List.tl vs) in
      List.iter2 (fun idx b -> res.(idx) <- b2s b) (List.rev cl.outs) v
    end) cells;
  String.concat "," (Array.to_list res)
let str_tok h = List.map z_of_int (hex_to_ints (if h = "-" then "" else h))
let () =
  try while true do
    let line = input_line stdin in
    let out =
      try
        (match words line with
         | mode :: rest when mode = "M" || mode = "L" ->
            let f = if mode = "M" then current else legacy in
            (match rest with
             | ["R"; a; b; c; d; ops; _] -> show_run f (init_gen f (args_of a b c d)) (ops_tok ops)
             | ["I"; a; b; c; d; a2; b2; c2; d2; _; ops] ->
                (match intersect_gen f (init_gen f (args_of a b c d)) (init_gen f (args_of a2 b2 c2 d2)) with
                 | ValueError -> "E" | Ok r -> show_run f r (ops_tok ops))
             | ["A"; a; b; c; d; t; twice; ops] ->
                (match make_absolute_gen f (init_gen f (args_of a b c d)) (oz_tok t) with
                 | ValueError -> "E"
                 | Ok r ->
                    if twice = "1" then (match make_absolute_gen f r (oz_tok t) with ValueError -> "E" | Ok r2 -> show_run f r2 (ops_tok ops))
                    else show_run f r (ops_tok ops))
             | ["P"; h; ab; ops] ->
                (match parse_gen f (str_tok h) (ob_tok ab) with
                 | PErr -> "E" | PUnsup -> "U" | POk r -> show_run f r (ops_tok ops))
             | "H" :: n :: more ->
                let n = int_of_string n in
                history_model f n (take (4 * n) more) (String.split_on_char ',' (List.nth more (4 * n)))
             | ["T"; a; b; c; d; ab; ops] ->
                (match parse_obj (init_gen f (args_of a b c d)) (ob_tok ab) with
                 | ValueError -> "E" | Ok r -> show_run f r (ops_tok ops))
             | ["Q"; _; _; _; _; _; form] when String.contains form '4' -> "E"
             | "Q" :: a :: b :: ty :: ab :: ops :: _ ->
                (match parse_tuple_gen f (targ_tok a) (targ_tok b) (if ty = "-" then None else Some (str_tok ty)) (ob_tok ab) with
                 | ValueError -> "E" | Ok r -> show_run f r (ops_tok ops))
             | _ -> "?")
         | "S" :: rest ->
            let dom ops k = if nondecr None ops then k () else "X" in
            (match rest with
             | ["R"; a; b; c; d; ops; _] -> let ops = ops_tok ops in dom ops (fun () -> bools (spec_run (describe (args_of a b c d)) ops))
             | ["I"; a; b; c; d; a2; b2; c2; d2; _; ops] ->
                let aa = args_of a b c d and bb = args_of a2 b2 c2 d2 in
                let va = describe aa and vb = describe bb and ops = ops_tok ops in
                if va.iabs <> vb.iabs && va.org = None && vb.org = None then "E"
                else dom ops (fun () ->
                  if origins_agree (init_gen current aa) (init_gen current bb) ops
                  then bools (map2 (&&) (spec_run va ops) (spec_run vb ops)) else "X")
             | ["A"; a; b; c; d; t; _; ops] ->
                let aa = args_of a b c d in
                let v = describe aa and ops = ops_tok ops in
                if v.iabs then dom ops (fun () -> bools (spec_run v ops))
                else (match (match v.org with Some z -> Some z | None -> oz_tok t) with
                      | None -> "E"
                      | Some z -> dom ops (fun () -> bools (spec_run { v with org = Some z } ops)))
             | ["PS"; kind; ha; hb; ab; ops] ->
                let fv h = let s = str_tok h in
                  if s = [] then `V None else
                  (match pyfloat s with
                   | FOk e -> `V (match e with NInf -> None | Fin z -> if int_of_z z < 0 then None else Some e | PInf -> Some e)
                   | FErr -> `X | FUnsup -> `U) in
                let ops = ops_tok ops in
                let sh = (match kind with "1" -> S1 [] | "2" -> S2 ([], []) | "3a" -> S3 ([], [], true) | "3r" -> S3 ([], [], false) | _ -> fail kind) in
                (match fv ha, (if kind = "1" then `V None else fv hb) with
                 | `V x, `V y -> dom ops (fun () -> bools (spec_run (describe (describe_text sh (ob_tok ab) x y)) ops))
                 | `U, _ | _, `U -> "U"
                 | _, _ -> "X")
             | "H" :: n :: more ->
                let n = int_of_string n in
                (try history_spec n (take (4 * n) more) (String.split_on_char ',' (List.nth more (4 * n))) with Outside -> "X")
             | ["T"; a; b; c; d; ab; ops] ->
                let v = describe (args_of a b c d) and ops = ops_tok ops in
                (match ob_tok ab with
                 | Some k when k <> v.iabs -> "E"
                 | _ -> dom ops (fun () -> bools (spec_run v ops)))
             | ["Q"; _; _; _; _; _; form] when String.contains form '4' -> "E"
             | "Q" :: a :: b :: ty :: ab :: ops :: _ ->
                let ops = ops_tok ops in
                let k = if ty = "-" then Some (ob_tok ab) else if ty = "616273" then Some (Some true) else if ty = "72656c" then Some (Some false) else None in
                (match k with
                 | None -> "E"
                 | Some k -> dom ops (fun () -> bools (spec_run (describe { a_start = targ_tok a; a_end = targ_tok b; a_abs = k; a_t0 = None }) ops)))
             | _ -> "?")
         | _ -> "?")
      with Failure m -> "!" ^ m | Invalid_argument m -> "!" ^ m | Not_found -> "!Not_found"
    in print_endline out
  done with End_of_file -> ()
