(* C13 line protocol (same lines go to harness/py/c13_impl.py, which ignores the mode token).
   <mode> <cmd> ...    mode: M = model of the working tree, L = model of the code before the repairs, S = SPEC
   bound token: N | F<k> | Fi | Fn | T<k> | Tx | Ti        (k = integer number of 1/8 s)
   ARGS = <start> <end> <abs: - 0 1> <t0: - k>
   OPS  = "-" or comma list of: u s n v (messages without P1 time) | p<k> d<k> (P1 time k/8 s) | r (restart)
   R ARGS OPS flags                 construct, apply OPS                         -> bools|state
   I ARGS ARGS inplace OPS          A.intersect(B), apply OPS to the result      -> E | bools|state   (S: X = outside the stated domain)
   A ARGS t0arg twice OPS           make_absolute(t0arg) (twice), apply OPS      -> E | bools|state
   P hex absarg OPS                 parse(str), apply OPS                        -> E | U | bools|state
   PS kind hexA hexB absarg OPS     (S only) the interval the text kind/A/B describes -> U | X | bools
   Q start end ty absarg OPS        parse(tuple)                                 -> E | bools|state
   T ARGS absarg OPS                parse(TimeRange(ARGS), absolute=absarg)      -> E | bools|state *)
let fail s = failwith ("bad token " ^ s)
let ext_tok s = match s with
  | "i" -> PInf | "n" -> NInf | _ -> Fin (z_of_int (int_of_string s))
let targ_tok s =
  if s = "N" then ANone else
  let r = String.sub s 1 (String.length s - 1) in
  match s.[0] with
  | 'F' -> AFloat (ext_tok r)
  | 'T' -> if r = "x" then ATs None else ATs (Some (ext_tok r))
  | _ -> fail s
let ob_tok s = match s with "-" -> None | "0" -> Some false | "1" -> Some true | _ -> fail s
let oz_tok s = if s = "-" || s = "x" then None else Some (z_of_int (int_of_string s))
let args_of a b c d = { a_start = targ_tok a; a_end = targ_tok b; a_abs = ob_tok c; a_t0 = oz_tok d }
let op_tok s =
  match s.[0] with
  | 'u' | 's' | 'n' | 'v' -> Msg Untimed
  | 'p' | 'd' -> Msg (Timed (z_of_int (int_of_string (String.sub s 1 (String.length s - 1)))))
  | 'r' -> Restart
  | _ -> fail s
let ops_tok s = if s = "-" then [] else List.map op_tok (String.split_on_char ',' s)
let bools l = if l = [] then "-" else String.concat "" (List.map b2s l)
let show_ext e = match e with NInf -> "-inf" | PInf -> "inf" | Fin z -> string_of_int (int_of_z z)
let show_oe o = match o with None -> "None" | Some e -> show_ext e
let show_state r =
  Printf.sprintf "%s %s %s %s %s %s" (b2s r.started) (b2s r.ended)
    (match r.t0 with None -> "None" | Some z -> string_of_int (int_of_z z)) (show_oe r.start) (show_oe r.stop) (b2s r.absolute)
let show_run f r ops = let (bs, r') = run_gen f r ops in bools bs ^ "|" ^ show_state r'
let str_tok h = List.map z_of_int (hex_to_ints (if h = "-" then "" else h))
let rec map2 f a b = match a, b with x :: a', y :: b' -> f x y :: map2 f a' b' | _, _ -> []
let () =
  try while true do
    let line = input_line stdin in
    let out =
      try
        (match words line with
         | mode :: rest when mode = "M" || mode = "L" ->
            let f = if mode = "M" then current else legacy in
            (match rest with
             | ["R"; a; b; c; d; ops; _] -> show_run f (init_gen f (args_of a b c d)) (ops_tok ops)
             | ["I"; a; b; c; d; a2; b2; c2; d2; _; ops] ->
                (match intersect_gen f (init_gen f (args_of a b c d)) (init_gen f (args_of a2 b2 c2 d2)) with
                 | ValueError -> "E" | Ok r -> show_run f r (ops_tok ops))
             | ["A"; a; b; c; d; t; twice; ops] ->
                (match make_absolute_gen f (init_gen f (args_of a b c d)) (oz_tok t) with
                 | ValueError -> "E"
                 | Ok r ->
                    if twice = "1" then (match make_absolute_gen f r (oz_tok t) with ValueError -> "E" | Ok r2 -> show_run f r2 (ops_tok ops))
                    else show_run f r (ops_tok ops))
             | ["P"; h; ab; ops] ->
                (match parse_gen f (str_tok h) (ob_tok ab) with
                 | PErr -> "E" | PUnsup -> "U" | POk r -> show_run f r (ops_tok ops))
             | ["T"; a; b; c; d; ab; ops] ->
                (match parse_obj (init_gen f (args_of a b c d)) (ob_tok ab) with
                 | ValueError -> "E" | Ok r -> show_run f r (ops_tok ops))
             | ["Q"; a; b; ty; ab; ops] ->
                (match parse_tuple_gen f (targ_tok a) (targ_tok b) (if ty = "-" then None else Some (str_tok ty)) (ob_tok ab) with
                 | ValueError -> "E" | Ok r -> show_run f r (ops_tok ops))
             | _ -> "?")
         | "S" :: rest ->
            let dom ops k = if nondecr None ops then k () else "X" in
            (match rest with
             | ["R"; a; b; c; d; ops; _] -> let ops = ops_tok ops in dom ops (fun () -> bools (spec_run (describe (args_of a b c d)) ops))
             | ["I"; a; b; c; d; a2; b2; c2; d2; _; ops] ->
                let aa = args_of a b c d and bb = args_of a2 b2 c2 d2 in
                let va = describe aa and vb = describe bb and ops = ops_tok ops in
                if va.iabs <> vb.iabs && va.org = None && vb.org = None then "E"
                else dom ops (fun () ->
                  if origins_agree (init_gen current aa) (init_gen current bb) ops
                  then bools (map2 (&&) (spec_run va ops) (spec_run vb ops)) else "X")
             | ["A"; a; b; c; d; t; _; ops] ->
                let aa = args_of a b c d in
                let v = describe aa and ops = ops_tok ops in
                if v.iabs then dom ops (fun () -> bools (spec_run v ops))
                else (match (match v.org with Some z -> Some z | None -> oz_tok t) with
                      | None -> "E"
                      | Some z -> dom ops (fun () -> bools (spec_run { v with org = Some z } ops)))
             | ["PS"; kind; ha; hb; ab; ops] ->
                let fv h = let s = str_tok h in
                  if s = [] then `V None else
                  (match pyfloat s with
                   | FOk e -> `V (match e with NInf -> None | Fin z -> if int_of_z z < 0 then None else Some e | PInf -> Some e)
                   | FErr -> `X | FUnsup -> `U) in
                let ops = ops_tok ops in
                let sh = (match kind with "1" -> S1 [] | "2" -> S2 ([], []) | "3a" -> S3 ([], [], true) | "3r" -> S3 ([], [], false) | _ -> fail kind) in
                (match fv ha, (if kind = "1" then `V None else fv hb) with
                 | `V x, `V y -> dom ops (fun () -> bools (spec_run (describe (describe_text sh (ob_tok ab) x y)) ops))
                 | `U, _ | _, `U -> "U"
                 | _, _ -> "X")
             | ["T"; a; b; c; d; ab; ops] ->
                let v = describe (args_of a b c d) and ops = ops_tok ops in
                (match ob_tok ab with
                 | Some k when k <> v.iabs -> "E"
                 | _ -> dom ops (fun () -> bools (spec_run v ops)))
             | ["Q"; a; b; ty; ab; ops] ->
                let ops = ops_tok ops in
                let k = if ty = "-" then Some (ob_tok ab) else if ty = "616273" then Some (Some true) else if ty = "72656c" then Some (Some false) else None in
                (match k with
                 | None -> "E"
                 | Some k -> dom ops (fun () -> bools (spec_run (describe { a_start = targ_tok a; a_end = targ_tok b; a_abs = k; a_t0 = None }) ops)))
             | _ -> "?")
         | _ -> "?")
      with Failure m -> "!" ^ m | Invalid_argument m -> "!" ^ m
    in print_endline out
  done with End_of_file -> ()
