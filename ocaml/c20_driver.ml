(* line protocol mirroring harness/cpp/c20_h.cc; M = model of the current code, S = spec *)
let show r = match r with
  | Ver (a, b) -> Printf.sprintf "%d %d" (int_of_z a) (int_of_z b)
  | Invalid -> "255 65535"
  | OutOfBounds -> "OOB"
let () =
  try while true do
    let line = input_line stdin in
    (match words line with
     | [c; h] when c = "P" || c = "SPEC" || c = "L" ->
        let s = List.map z_of_int (hex_to_ints (if h = "-" then "" else h)) in
        print_endline (show (if c = "P" then from_string s else if c = "L" then from_string_legacy s else spec_from_string s))
     | ["T"; a; b] -> print_endline (ints_to_hex (List.map int_of_z (to_string (z_of_int (int_of_string a)) (z_of_int (int_of_string b)))))
     | ["V"; a; b] -> print_endline (b2s (is_valid (z_of_int (int_of_string a)) (z_of_int (int_of_string b))))
     | ["C"; a; b; c; d] ->
        let x = (z_of_int (int_of_string a), z_of_int (int_of_string b)) and y = (z_of_int (int_of_string c), z_of_int (int_of_string d)) in
        print_endline (String.concat " " (List.map b2s [v_eq x y; v_ne x y; v_lt x y; v_gt x y; v_le x y; v_ge x y]))
     | _ -> print_endline "?")
  done with End_of_file -> ()
