(* C04/C05 line-protocol driver around the extracted decoder MODEL (PyDecoder_on_data) and SPEC (feed PyDecoder_judge).
   (conv.ml and `open C04_x` / `open C05_x` are prepended by lib/vf.py.)

   input line:   <S|V> <maxp> <maxe> <rb> <ro> <legacy> <stream-hex|-> <oracle|-> <chunkings>
     oracle      comma separated  <type>:<payload-hex|->:<1|0>:<pv>   (1 = the payload parser succeeds on exactly these
                 bytes, pv = digest of the field values it yields; this is the instantiation of the section variable parse_payload)
     chunkings   ';' separated:  ONE | BYTES | SPLITS | c:<n1>,<n2>,...   (chunk sizes; 0 = an empty call)
   output line:  per chunking (SPLITS expands to one per split point), separated by ' | ':
       S mode:  <R_model8> <A_model8> <R_spec8>          (first 8 hex digits of the MD5 of the texts below)
       V mode:  M{<R text>}{<A text>} S{<R text>}
     R text (public observables): for every call i with a non-empty return value  i:item+item+...;
            item = type,seq,payload_size,crc,raw-hex|-,offset|-,pv   (SPEC prints pv = X where the parser fails)
     A text (private attributes after every call): processed,len(buffer),header-is-None,msg_len,last_seq|-;
   A model failure prints RAISED / OUTOFFUEL in place of the R text; an oracle miss prints ERROR. *)
let rec int_of_n (x : n) : int = match x with N0 -> 0 | Npos p -> int_of_pos p
let n_of_int (i : int) : n = if i = 0 then N0 else Npos (pos_of_int i)
let n_of_string (s : string) : n =
  (* decimal, may exceed 2^62: build through Z-free repeated doubling on digits *)
  let r = ref N0 in
  let add_small (x : n) (d : int) : n = N.add x (n_of_int d) in
  String.iter (fun c -> r := add_small (N.mul !r (n_of_int 10)) (Char.code c - 48)) s; !r
let bytes_of_hex h = List.map n_of_int (hex_to_ints (if h = "-" then "" else h))
let hex_of_bytes l = ints_to_hex (List.map int_of_n l)
let rec take k l = if k <= 0 then [] else match l with [] -> [] | x :: t -> x :: take (k - 1) t
let rec drop k l = if k <= 0 then l else match l with [] -> [] | _ :: t -> drop (k - 1) t

exception Oracle_miss

let item rb ro (h : header) (raw : n list option) (off : int option) (pv : string) =
  Printf.sprintf "%d,%d,%d,%d,%s,%s,%s" (int_of_n h.h_type) (int_of_n h.h_seq) (int_of_n h.h_psize) (int_of_n h.h_crc)
    (match raw with Some b -> hex_of_bytes b | None -> "-")
    (match off with Some o -> string_of_int o | None -> "-") pv

let run_model parse maxp maxe rb ro legacy (chunks : n list list) : string * string =
  let rbuf = Buffer.create 256 and abuf = Buffer.create 256 in
  let st = ref pyDecoder_init and failed = ref "" in
  List.iteri (fun i c ->
    if !failed = "" then
      match pyDecoder_on_data parse maxp maxe rb ro legacy !st c with
      | PdDone (rs, st') ->
          st := st';
          if rs <> [] then begin
            Buffer.add_string rbuf (string_of_int i ^ ":");
            Buffer.add_string rbuf (String.concat "+" (List.map (fun r ->
              item rb ro r.pr_hdr r.pr_bytes (match r.pr_off with Some o -> Some (int_of_n o) | None -> None) r.pr_payload) rs));
            Buffer.add_string rbuf ";" end;
          Buffer.add_string abuf (Printf.sprintf "%d,%d,%d,%d,%s;" (int_of_n st'.pd_processed) (List.length st'.pd_buf)
            (match st'.pd_hdr with None -> 1 | Some _ -> 0) (int_of_n st'.pd_msg_len)
            (match st'.pd_last_seq with None -> "-" | Some s -> string_of_int (int_of_n s)))
      | PdRaised -> failed := "RAISED"
      | PdOutOfFuel -> failed := "OUTOFFUEL") chunks;
  if !failed <> "" then (!failed, !failed) else (Buffer.contents rbuf, Buffer.contents abuf)

let run_spec parse maxp maxe rb ro (chunks : n list list) : string =
  let rbuf = Buffer.create 256 in
  let st = ref (O, []) in
  List.iteri (fun i c ->
    let (fs, st') = feed (pyDecoder_judge maxp maxe) !st c in
    st := st';
    if fs <> [] then begin
      Buffer.add_string rbuf (string_of_int i ^ ":");
      Buffer.add_string rbuf (String.concat "+" (List.map (fun (o, bs) ->
        let h = parse_header (take 24 bs) in
        item rb ro h (if rb then Some bs else None) (if ro then Some (int_of_nat o) else None)
          (match parse h.h_type (drop 24 bs) with Some pv -> pv | None -> "X")) fs));
      Buffer.add_string rbuf ";" end) chunks;
  Buffer.contents rbuf

let split_sizes (stream : n list) (sizes : int list) : n list list =
  let rec go l = function [] -> [] | k :: ks -> take k l :: go (drop k l) ks in go stream sizes

let d8 s = String.sub (Digest.to_hex (Digest.string s)) 0 8

let () =
  try while true do
    let line = input_line stdin in
    (try
      match words line with
      | [mode; maxp; maxe; rb; ro; legacy; sh; oracle; chunkings] ->
          let maxp = n_of_string maxp and maxe = n_of_string maxe in
          let rb = rb = "1" and ro = ro = "1" and legacy = legacy = "1" in
          let stream = bytes_of_hex sh in
          let n = List.length stream in
          let tbl = Hashtbl.create 16 in
          if oracle <> "-" then
            List.iter (fun e -> match String.split_on_char ':' e with
              | [t; p; ok; pv] -> Hashtbl.replace tbl (int_of_string t, (if p = "-" then "" else p)) (if ok = "1" then Some pv else None)
              | _ -> failwith "bad oracle entry") (String.split_on_char ',' oracle);
          let parse (t : n) (p : n list) : string option =
            match Hashtbl.find_opt tbl (int_of_n t, hex_of_bytes p) with
            | Some r -> r | None -> raise Oracle_miss in
          let specs = List.concat_map (fun c ->
            if c = "ONE" then [[n]]
            else if c = "BYTES" then [List.init n (fun _ -> 1)]
            else if c = "SPLITS" then List.init (max 0 (n - 1)) (fun k -> [k + 1; n - k - 1])
            else if String.length c >= 2 && String.sub c 0 2 = "c:" then
              [List.map int_of_string (List.filter (fun s -> s <> "") (String.split_on_char ',' (String.sub c 2 (String.length c - 2))))]
            else failwith "bad chunking") (String.split_on_char ';' chunkings) in
          let outs = List.map (fun sizes ->
            let chunks = split_sizes stream sizes in
            let (rm, am) = run_model parse maxp maxe rb ro legacy chunks in
            let rs = run_spec parse maxp maxe rb ro chunks in
            if mode = "V" then Printf.sprintf "M{%s}{%s} S{%s}" rm am rs
            else Printf.sprintf "%s %s %s" (d8 rm) (d8 am) (d8 rs)) specs in
          print_endline (String.concat " | " outs)
      | _ -> print_endline "?"
    with Oracle_miss -> print_endline "ERROR oracle-miss"
       | Failure m -> print_endline ("ERROR " ^ m))
  done with End_of_file -> ()
