#!/bin/bash
# One-time build after a fresh restore (offline): regenerate Generated/*.v from /repo, full Coq build.
set -e
cd "$(dirname "$0")"
mkdir -p build evidence
PYTHONPATH=/repo/python PYTHONHASHSEED=0 /venv/bin/python translators/gen_all.py 2>&1 | grep -v 'leap second' || true
/venv/bin/python - <<'PY'
import sys; sys.path.insert(0, 'lib'); import vf
vf.coq_project()
PY
cd coq && timeout 3000 make -j16 2>&1 | tail -5
