#!/usr/bin/env python3
"""usage: tools/mkrefactor.py <name> <file> [<file> ...] -- scratch worktree /tmp/refac-<name> + task file"""
import subprocess, sys
name, files = sys.argv[1], sys.argv[2:]
wt = '/tmp/refac-%s' % name
subprocess.run(['git', '-C', '/repo', 'worktree', 'add', '--detach', wt, 'HEAD'], check=True, capture_output=True)
task = f"""# Task: behaviour-preserving refactors

You have your own scratch git worktree of the library PointOneNav/fusion-engine-client at {wt}. Work ONLY inside {wt}
and {wt}-out. Do not touch /repo. Do not read or use anything under /verif.

Produce 5 DIFFERENT refactoring patches of the files below, each of the kind a maintainer makes routinely and each STRICTLY
behaviour-preserving for every public API (same return values, same exceptions and exception types, same side effects on
files, same results for every edge case incl. empty inputs, boundaries, odd sizes; same C++ observable behaviour incl. memory
accesses). Files: {', '.join(files)}

Make them non-trivial (a few dozen changed lines each) and varied, for example: rename private attributes / locals / helper
functions (and C++ private members); reorder independent statements; extract or inline small helpers; replace a loop by a
comprehension or vice versa; restructure if/elif chains or early returns; change how a constant is spelled (0x100 vs 256,
1 << 24 vs 16777216, 80 * 1024 vs 81920, named constant vs literal) without changing its value; move a constant to a
different place in the same class/module; change string formatting of log messages; add/remove comments and blank lines;
re-wrap long lines (e.g. split a `static constexpr ... =` definition over two lines); reorder methods inside a class;
reorder entries of dict/enum/struct-independent tables where order is not observable. Do NOT change public names,
signatures, wire formats, or any observable behaviour. If you are not sure a change is behaviour-preserving, leave it out.

The existing test suite must still pass: `cd {wt} && /venv/bin/python -m pytest -q -p no:cacheprovider --timeout=900
--continue-on-collection-errors` -> 150 passed and exactly the 2 known failures test_pose_encode, test_find_message_types.
For C++ files also check they compile: `clang++-14 -std=c++14 -Wall -I{wt}/src -c <file.cc> -o /dev/null`.

For each i=1..5 write {wt}-out/r<i>/patch.diff (`git -C {wt} diff` for that refactor alone, relative to HEAD; must apply with
`git apply`) and {wt}-out/r<i>/meta.json {{"summary": "...", "files": [...], "why_behaviour_preserving": "..."}}.
Restore the worktree between patches (`git -C {wt} checkout -- .`) and leave it clean. Final answer: one line per patch.
"""
open(wt + '-task.md', 'w').write(task)
print(wt + '-task.md')
