#!/usr/bin/env python3
"""usage: tools/refactest.py <name> [-j N]
Runs, for every harmless refactor /tmp/refac-<name>-out/r*/patch.diff, every check whose anchored files the patch
touches (via tools/seedtest.sh: private /verif copy + worktree with the patch). Expected: exit 0 everywhere.
Results are appended to /verif/seeded/harmless/<name>.json."""
import fnmatch, glob, json, os, re, subprocess, sys
from concurrent.futures import ThreadPoolExecutor
name = sys.argv[1]
J = int(sys.argv[sys.argv.index('-j') + 1]) if '-j' in sys.argv else 4
props = [json.loads(l) for l in open('/verif/properties.jsonl')]
EXTRA = {  # files a property depends on beyond its anchor list
    'python/fusion_engine_client/messages/defs.py': ['C01', 'C03', 'C04', 'C05', 'C06', 'C08', 'C10', 'C16', 'C19'],
    'python/fusion_engine_client/utils/time_range.py': ['C10', 'C11', 'C13'],
    'python/fusion_engine_client/parsers/file_index.py': ['C08', 'C09', 'C10', 'C11', 'C18'],
    'python/fusion_engine_client/parsers/mixed_log_reader.py': ['C09', 'C10', 'C11', 'C12', 'C18'],
    'python/fusion_engine_client/utils/enum_utils.py': ['C17', 'C03'],
    'python/fusion_engine_client/messages/timestamp.py': ['C01', 'C02', 'C16'],
    'src/point_one/fusion_engine/messages/crc.cc': ['C06', 'C07'],
}


def pids_for(files):
    out = set()
    for f in files:
        for p in props:
            for a in p['anchors']['files']:
                a = a.split(' ')[0]
                if a == f or fnmatch.fnmatch(f, a):
                    out.add(p['id'])
        for k, v in EXTRA.items():
            if f == k:
                out.update(v)
        if f.startswith('src/point_one/fusion_engine/messages/') and f.endswith('.h'):
            out.update(['C02', 'C03'])
        if f.startswith('python/fusion_engine_client/messages/'):
            out.update(['C01', 'C02', 'C03', 'C16'])
    return sorted(out)


jobs = []
for d in sorted([d for d in (glob.glob('/tmp/refac-%s-out/r[0-9]' % name) or glob.glob('/verif/seeded/harmless/%s-r[0-9]' % name)) if os.path.isdir(d)]):
    patch = os.path.join(d, 'patch.diff')
    files = re.findall(r'^\+\+\+ b/(\S+)', open(patch).read(), re.M)
    for pid in pids_for(files):
        jobs.append((os.path.basename(d).split('-')[-1], patch, pid, files))


def run(j):
    r, patch, pid, files = j
    p = subprocess.run(['/verif/tools/seedtest.sh', pid, patch], capture_output=True, text=True)
    out = p.stdout + p.stderr
    m = re.search(r'exit=(\d+)', out)
    rc = int(m.group(1)) if m else -1
    if 'PATCH DOES NOT APPLY' in out:
        rc = -2
    return {'refactor': r, 'property': pid, 'files': files, 'exit': rc, 'lines': [l for l in out.split('\n') if l.startswith(('VIOLATION', 'PATCH'))][:3]}


with ThreadPoolExecutor(J) as ex:
    res = list(ex.map(run, jobs))
os.makedirs('/verif/seeded/harmless', exist_ok=True)
for d in sorted([d for d in (glob.glob('/tmp/refac-%s-out/r[0-9]' % name) or glob.glob('/verif/seeded/harmless/%s-r[0-9]' % name)) if os.path.isdir(d)]):
    dst = '/verif/seeded/harmless/%s-%s' % (name, os.path.basename(d).split('-')[-1])
    if os.path.abspath(d) == dst:
        continue
    os.makedirs(dst, exist_ok=True)
    for f in ('patch.diff', 'meta.json'):
        if os.path.exists(os.path.join(d, f)):
            subprocess.run(['cp', os.path.join(d, f), dst])
json.dump(res, open('/verif/seeded/harmless/%s.json' % name, 'w'), indent=1)
for r in res:
    print(r['refactor'], r['property'], 'exit=%d' % r['exit'], *r['lines'])
