#!/bin/bash
# usage: tools/seedtest.sh <PID> <patch.diff> [tier]
# Runs ./check <PID> against a scratch worktree of /repo with the patch applied, from a private copy of /verif
# (so concurrent work in /verif and /repo is not disturbed).  Prints the tail of the check output and its exit code.
set -u
PID=$1; PATCH=$(realpath "$2"); TIER=${3:-quick}
WT=/tmp/seedwt-$PID-$$; VC=/tmp/verifcopy-$PID-$$
git -C /repo worktree add --detach "$WT" HEAD >/dev/null 2>&1 || { echo "worktree failed"; exit 3; }
if ! git -C "$WT" apply "$PATCH"; then echo "PATCH DOES NOT APPLY"; git -C /repo worktree remove --force "$WT"; exit 4; fi
mkdir -p "$VC"
rsync -a --delete --exclude .git --exclude replays --exclude 'build/tmp' /verif/ "$VC"/
cd "$VC"
VERIF_REPO="$WT" timeout 3000 ./check "$PID" --tier "$TIER" > "$VC/seed.out" 2>&1
RC=$?
grep -E "^VIOLATION" "$VC/seed.out" | head -4
echo "known-finding lines: $(grep -c "^KNOWN-FINDING" "$VC/seed.out")"
grep -E "Traceback|Error" "$VC/seed.out" | head -4
echo "exit=$RC"
git -C /repo worktree remove --force "$WT"
cp "$VC/seed.out" /verif/build/seedtest-last-$PID.out 2>/dev/null
rm -rf "$VC"
exit $RC
