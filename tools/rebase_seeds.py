#!/usr/bin/env python3
"""Re-base stored patches (seeded/**/patch.diff) that no longer apply to /repo HEAD (after later fix: commits).
Tries `patch -p1 --fuzz=3` in a scratch worktree and regenerates the diff; reports what could not be re-based."""
import glob, json, os, subprocess, sys
WT = '/tmp/rebase-wt'
def sh(cmd, cwd=None):
    p = subprocess.run(cmd, shell=True, cwd=cwd, capture_output=True, text=True); return p.returncode, p.stdout + p.stderr
sh('git -C /repo worktree remove --force %s' % WT); sh('git -C /repo worktree add --detach %s HEAD' % WT)
head = sh('git -C /repo rev-parse --short HEAD')[1].strip()
for p in sorted(glob.glob('/verif/seeded/**/patch.diff', recursive=True)):
    sh('git checkout -q -- . && git clean -fdq', cwd=WT)
    if sh('git apply --check %s' % p, cwd=WT)[0] == 0:
        continue
    rc, out = sh('patch -p1 --fuzz=3 --no-backup-if-mismatch -s < %s' % p, cwd=WT)
    sh('find . -name "*.orig" -delete -o -name "*.rej" -delete', cwd=WT)
    meta = os.path.join(os.path.dirname(p), 'meta.json')
    m = json.load(open(meta)) if os.path.exists(meta) else {}
    if rc == 0:
        new = sh('git diff', cwd=WT)[1]
        open(p, 'w').write(new)
        m.setdefault('rebased', []); m['rebased'] = (m['rebased'] if isinstance(m['rebased'], list) else [m['rebased']]) + ['re-based onto %s with patch --fuzz=3' % head]
        print('REBASED', p)
    else:
        m['does_not_apply_since'] = head
        print('OBSOLETE', p, out.strip().split('\n')[-1][:100])
    json.dump(m, open(meta, 'w'), indent=1)
sh('git -C /repo worktree remove --force %s' % WT)
