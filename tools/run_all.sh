#!/bin/bash
# run every registered quick check; summary line per property
cd "$(dirname "$0")/.."
for id in $(python3 -c "import json;print(' '.join(c['property_id'] for c in json.load(open('MANIFEST.json'))['checks']))"); do
  s=$(date +%s); ./check $id --tier ${1:-quick} > build/run_$id.log 2>&1; rc=$?; e=$(date +%s)
  echo "$id rc=$rc $((e-s))s $(grep -c '^VIOLATION' build/run_$id.log) violations $(grep -c '^KNOWN-FINDING' build/run_$id.log) known"
done
