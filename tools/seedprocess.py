#!/usr/bin/env python3
"""usage: tools/seedprocess.py <ID> [--keep-all]
For each /tmp/seed-<ID>-out/m*/: confirm (demo passes on the clean worktree /tmp/seed-<ID>, fails with the patch, the
test suite still gives the baseline with the patch), run ./check <ID> against a worktree with the patch (tools/seedtest.sh),
and store confirmed changes under /verif/seeded/<ID>/m<i>/ with the outcome in meta.json."""
import glob, json, os, shutil, subprocess, sys
pid = sys.argv[1]
rnd = int(sys.argv[sys.argv.index('--round') + 1]) if '--round' in sys.argv else 1
wt = '/tmp/seed-%s' % pid if rnd == 1 else '/tmp/seed%d-%s' % (rnd, pid)
out = wt + '-out'
BASE_FAIL = {'test_pose_encode', 'test_find_message_types'}


def sh(cmd, cwd=None, timeout=3600, env=None):
    p = subprocess.run(cmd, shell=True, cwd=cwd, capture_output=True, text=True, timeout=timeout, env=env)
    return p.returncode, p.stdout + p.stderr


def demo(d, tree):
    if os.path.exists(os.path.join(d, 'run.sh')):
        return sh('bash run.sh %s' % tree, cwd=d, timeout=1200)[0]
    env = dict(os.environ, PYTHONPATH=tree + '/python', PYTHONHASHSEED='0')
    return sh('/venv/bin/python demo.py %s' % tree, cwd=d, env=env, timeout=1200)[0]


def suite(tree):
    """The pinned suite command imports the package installed in /venv, not the tree, so it is also run with
    PYTHONPATH=<tree>/python (then all 152 tests pass on a clean tree); both must hold."""
    rc, o = sh('/venv/bin/python -m pytest -q -p no:cacheprovider --timeout=900 --continue-on-collection-errors 2>&1 | tail -5', cwd=tree)
    last = [l for l in o.strip().split('\n') if 'passed' in l or 'failed' in l]
    fails = {l.split('::')[-1].split(' ')[0] for l in o.split('\n') if l.startswith('FAILED')}
    env = dict(os.environ, PYTHONPATH=tree + '/python')
    rc2, o2 = sh('/venv/bin/python -m pytest -q -p no:cacheprovider --timeout=900 --continue-on-collection-errors 2>&1 | tail -5', cwd=tree, env=env)
    last2 = [l for l in o2.strip().split('\n') if 'passed' in l or 'failed' in l]
    line = (last[-1] if last else o[-200:]) + ' | against the tree sources: ' + (last2[-1] if last2 else o2[-200:])
    ok_src = bool(last2) and 'failed' not in last2[-1] and '152 passed' in last2[-1]
    if not ok_src:
        fails = fails | {'<fails against tree sources>'}
    return line, fails


results = []
for d in sorted(glob.glob(out + '/m*')):
    name = os.path.basename(d)
    patch = os.path.join(d, 'patch.diff')
    if not os.path.exists(patch):
        continue
    sh('git checkout -- . && git clean -fdq', cwd=wt)
    clean_rc = demo(d, wt)
    rc, o = sh('git apply %s' % patch, cwd=wt)
    if rc != 0:
        results.append((name, 'patch does not apply', None)); continue
    mut_rc = demo(d, wt)
    line, fails = suite(wt)
    sh('git checkout -- . && git clean -fdq', cwd=wt)
    confirmed = clean_rc == 0 and mut_rc != 0 and '150 passed' in line and fails <= BASE_FAIL
    rc, o = sh('/verif/tools/seedtest.sh %s %s' % (pid, patch), timeout=3600)
    caught = 'exit=1' in o and 'VIOLATION' in o
    viol = [l for l in o.split('\n') if l.startswith('VIOLATION')][:2]
    meta = json.load(open(os.path.join(d, 'meta.json'))) if os.path.exists(os.path.join(d, 'meta.json')) else {}
    meta.update({'property': pid,
                 'confirmed': {'demo_rc_clean': clean_rc, 'demo_rc_with_change': mut_rc, 'suite_with_change': line, 'ok': confirmed},
                 'check': {'cmd': 'tools/seedtest.sh %s patch.diff (./check %s --tier quick against a worktree with the patch)' % (pid, pid),
                           'caught': caught, 'lines': viol, 'tail': o[-400:] if not caught else ''}})
    results.append((name, 'confirmed' if confirmed else 'NOT confirmed (clean=%s mut=%s suite=%s)' % (clean_rc, mut_rc, line), caught))
    if confirmed or '--keep-all' in sys.argv:
        dst = '/verif/seeded/%s/%s' % (pid, name if rnd == 1 else 'r%d-%s' % (rnd, name))
        os.makedirs(dst, exist_ok=True)
        for f in os.listdir(d):
            if os.path.isfile(os.path.join(d, f)) and os.path.getsize(os.path.join(d, f)) < 200000:
                shutil.copy(os.path.join(d, f), dst)
        json.dump(meta, open(os.path.join(dst, 'meta.json'), 'w'), indent=1)
for r in results:
    print(pid, *r)
