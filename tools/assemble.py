#!/usr/bin/env python3
"""Assemble MANIFEST.json from manifest.d/*.json and known_findings.json from findings.d/*.json."""
import glob, json, os
V = os.path.dirname(os.path.dirname(os.path.abspath(__file__)))
props = [json.loads(l)['id'] for l in open(os.path.join(V, 'properties.jsonl'))]
checks, na = [], []
for pid in props:
    p = os.path.join(V, 'manifest.d', pid + '.json')
    if not os.path.exists(p):
        na.append({'property_id': pid, 'reason': 'not yet claimed: check under construction (see DESIGN.md)'})
        continue
    f = json.load(open(p))
    if f.get('not_applicable'):
        na.append({'property_id': pid, 'reason': f['not_applicable']}); continue
    c = {'property_id': pid,
         'quick_cmd': './check %s --tier quick' % pid,
         'thorough_cmd': './check %s --tier thorough' % pid,
         'evidence_file': 'evidence/%s.json' % pid,
         'replay_cmd_template': './check %s --replay {path}' % pid,
         'engine': 'coq-model+correspondence',
         'level_claimed': {'category': f.get('category', 'proof'), 'text': f['text'], 'design_ref': f.get('design_ref', 'DESIGN.md ' + pid)},
         'level_note': f['level_note'], 'technique': f.get('technique', 'machine-checked proof in Coq 8.16.1 of a model tied to the code by a differential correspondence check')}
    checks.append(c)
hooks = json.load(open(os.path.join(V, 'manifest.d', '_hooks.json')))
man = {'version': 1,
       'setup_cmd': './setup.sh',
       'hooks': hooks,
       'engines': [{'name': 'coq-model+correspondence', 'path': 'check', 'serves_properties': [c['property_id'] for c in checks],
                    'kind_free_text': 'Coq 8.16.1 models+theorems (coq/theories), constants regenerated from /repo by translators/, extracted OCaml runners and C++/Python harnesses for differential correspondence and failing-input search'}],
       'checks': checks,
       'not_applicable': na,
       'notes': 'See DESIGN.md. known_findings.json lists recorded findings (status known) and repaired defects (status fixed).'}
json.dump(man, open(os.path.join(V, 'MANIFEST.json'), 'w'), indent=1)
fs = []
for p in sorted(glob.glob(os.path.join(V, 'findings.d', '*.json'))):
    fs += json.load(open(p))
json.dump({'findings': fs}, open(os.path.join(V, 'known_findings.json'), 'w'), indent=1)
print('MANIFEST: %d checks, %d not claimed; %d findings' % (len(checks), len(na), len(fs)))
