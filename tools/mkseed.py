#!/usr/bin/env python3
"""usage: tools/mkseed.py <ID> [n]  -- creates scratch worktree /tmp/seed-<ID> and the task file /tmp/seed-<ID>-task.md"""
import json, subprocess, sys
pid = sys.argv[1]; n = int(sys.argv[2]) if len(sys.argv) > 2 else 4
rnd = int(sys.argv[3]) if len(sys.argv) > 3 else 1
p = [json.loads(l) for l in open('/verif/properties.jsonl') if json.loads(l)['id'] == pid][0]
wt = '/tmp/seed-%s' % pid if rnd == 1 else '/tmp/seed%d-%s' % (rnd, pid)
import glob, os
prev = []
for m in sorted(glob.glob('/verif/seeded/%s/*/meta.json' % pid)):
    try: prev.append('- ' + json.load(open(m)).get('summary', '')[:400].replace('\n', ' '))
    except Exception: pass
prev_txt = ('\n## Already tried (do NOT repeat these ideas or close variants; find different mechanisms, sites and triggering conditions)\n' + '\n'.join(prev) + '\n') if prev and rnd > 1 else ''
subprocess.run(['git', '-C', '/repo', 'worktree', 'add', '--detach', wt, 'HEAD'], check=True, capture_output=True)
task = f"""# Task: seed realistic regressions that break one property

You are testing how robust a code base is against subtle regressions. You have your own scratch git worktree of the
library PointOneNav/fusion-engine-client at {wt}. Work ONLY inside {wt} and {wt}-out. Do not touch /repo.
Do not read or use anything under /verif.

The library should satisfy this property ({pid}: {p['title']}):

> {p['statement']}

Scope the property quantifies over: {p['quantifier']['text']}

Code involved: {', '.join(p['anchors']['files'])}
Observables: {'; '.join(p['anchors'].get('observe_at') or [])}

## What to produce
{n} DIFFERENT realistic changes to the library source (each a separate small patch, as a maintainer might plausibly
introduce while refactoring, optimising or "simplifying") that BREAK this property while the code still compiles/imports
and the existing test suite still passes:
`cd {wt} && /venv/bin/python -m pytest -q -p no:cacheprovider --timeout=900 --continue-on-collection-errors`
-> 150 passed, and exactly the 2 known failures test_pose_encode and test_find_message_types.
IMPORTANT: that command imports the copy of the package installed in /venv, not your tree, so ALSO run it as
`cd {wt} && PYTHONPATH={wt}/python /venv/bin/python -m pytest -q -p no:cacheprovider --timeout=900 --continue-on-collection-errors`
-> 152 passed (this one really exercises your change; it must stay at 152 passed).
Prefer changes that need something specific to manifest — a particular interleaving or chunking, a multi-step sequence of
operations, an unusual or boundary input, a fault at a particular point, or two cooperating sites that each look fine
alone — rather than ones ordinary use would expose at once. Each change must look innocent in isolation. Spread the
changes over different mechanisms/sites of the code involved. Change only library source (python/fusion_engine_client/... or
src/...), never tests.

For each change i=1..{n} write into {wt}-out/m<i>/:
 - patch.diff : output of `git -C {wt} diff` for that change alone (relative to the worktree's HEAD; must apply with `git apply`)
 - a demonstration that fails with the change and passes without it: for Python code `demo.py`, run as
   `PYTHONPATH=<tree>/python /venv/bin/python demo.py` (exit 0 = property holds on the inputs it tries, non-zero = violated);
   for C++ code `demo.cc` plus `run.sh <tree>` that compiles it with `clang++-14 -std=c++14 -I<tree>/src ...` against the
   tree's sources and runs it. The demo must take the tree path from its argument / PYTHONPATH, not hard-code it.
 - meta.json : {{"property": "{pid}", "summary": "...", "needs": "what specific input/sequence/condition it needs to manifest",
   "verified": "what you ran and observed with and without the change"}}
Verify each yourself: demo passes on the clean worktree, fails with the change; the test suite still passes with it.
Between changes restore the worktree with `git -C {wt} checkout -- .` (do NOT use `git stash`: the stash is shared by all worktrees of the repository). Leave the worktree clean at the end.
Final answer: a one-line summary per change.
{prev_txt}"""
open(wt + '-task.md', 'w').write(task)
print(wt + '-task.md')
