#!/usr/bin/env python3
"""Final sweep: run ./check <ID> (via tools/seedtest.sh) against every stored breaking change (expected exit 1 with a
VIOLATION line) and every stored harmless refactor that still applies (expected exit 0). Writes seeded/SWEEP.json."""
import glob, json, os, re, subprocess, sys
from concurrent.futures import ThreadPoolExecutor
J = int(sys.argv[1]) if len(sys.argv) > 1 else 6
jobs = []
for p in sorted(glob.glob('/verif/seeded/C*/*/patch.diff')):
    pid = p.split('/')[3]; m = json.load(open(os.path.join(os.path.dirname(p), 'meta.json')))
    if m.get('confirmed', {}).get('ok') is False:
        continue
    jobs.append(('breaking', pid, p))
def run(j):
    kind, pid, p = j
    r = subprocess.run(['/verif/tools/seedtest.sh', pid, p], capture_output=True, text=True)
    out = r.stdout + r.stderr
    m = re.search(r'exit=(\d+)', out); rc = int(m.group(1)) if m else -1
    if 'PATCH DOES NOT APPLY' in out: rc = -2
    nf = 'no-failing-input-found' in out
    return {'kind': kind, 'property': pid, 'patch': p.replace('/verif/', ''), 'exit': rc, 'only_no_failing_input': nf and rc == 1 and out.count('VIOLATION') == out.count('no-failing-input-found')}
with ThreadPoolExecutor(J) as ex:
    res = list(ex.map(run, jobs))
json.dump(res, open('/verif/seeded/SWEEP.json', 'w'), indent=1)
bad = [r for r in res if r['exit'] != 1]
print('breaking changes: %d, caught (exit 1): %d, concrete replay: %d' % (len(res), len(res) - len(bad), sum(1 for r in res if r['exit'] == 1 and not r['only_no_failing_input'])))
for r in bad: print('NOT CAUGHT', r['patch'], r['exit'])
