#!/usr/bin/env python3
"""Re-run the repository test suite against the TREE SOURCES (PYTHONPATH=<tree>/python) for every stored seeded
change, because the pinned suite command imports the package installed in /venv. Records the result in meta.json."""
import glob, json, os, subprocess, sys
from concurrent.futures import ThreadPoolExecutor
def sh(cmd, cwd=None, env=None):
    p = subprocess.run(cmd, shell=True, cwd=cwd, capture_output=True, text=True, env=env); return p.returncode, p.stdout + p.stderr
patches = sorted(glob.glob('/verif/seeded/C*/*/patch.diff'))
def one(args):
    i, p = args
    wt = '/tmp/rsuite-%d' % i
    sh('git -C /repo worktree remove --force %s' % wt); sh('git -C /repo worktree add --detach %s HEAD' % wt)
    rc, o = sh('git apply %s' % p, cwd=wt)
    if rc != 0:
        res = 'patch does not apply'
    else:
        rc, o = sh('/venv/bin/python -m pytest -q -p no:cacheprovider --timeout=900 --continue-on-collection-errors 2>&1 | tail -4', cwd=wt, env=dict(os.environ, PYTHONPATH=wt + '/python'))
        last = [l for l in o.strip().split('\n') if 'passed' in l or 'failed' in l or 'error' in l]
        res = last[-1].strip('= ') if last else o[-150:]
    sh('git -C /repo worktree remove --force %s' % wt)
    m = os.path.join(os.path.dirname(p), 'meta.json'); d = json.load(open(m))
    d.setdefault('confirmed', {})['suite_against_tree_sources'] = res
    json.dump(d, open(m, 'w'), indent=1)
    return p, res
with ThreadPoolExecutor(8) as ex:
    for p, res in ex.map(one, list(enumerate(patches))):
        if '152 passed' not in res:
            print(p.replace('/verif/seeded/', ''), '->', res)
print('done', len(patches))
